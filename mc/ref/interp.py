"""Reference consensus script interpreter (what Appendix A of DESIGN.md fixes).

Flags modelled: P2SH, DERSIG, NULLDUMMY, CHECKLOCKTIMEVERIFY, CHECKSEQUENCEVERIFY, WITNESS, TAPROOT.
Not modelled (policy only): LOW_S, STRICTENC, MINIMALDATA, NULLFAIL, CLEANSTACK, MINIMALIF (v0),
WITNESS_PUBKEYTYPE, DISCOURAGE_*.  Not modelled (never occurs in enumerated cases): FindAndDelete,
OP_CODESEPARATOR, resource limits (script size, op count, stack size), sigops budget.

Written from script/interpreter.cpp semantics, shares no code with buidl.
"""
import hashlib

from mc.ref import ec, txref


class ScriptError(Exception):
    pass


class OutOfStatement(Exception):
    """The program uses something the checked statements exclude (operand > 4 bytes of an arithmetic /
    comparison opcode, an opcode buidl does not implement).  Several ELSE per IF are consensus-valid and are
    executed (each ELSE toggles); an over-long PICK/ROLL index or CLTV/CSV operand is a script error."""


def cast_to_bool(b):
    for i, c in enumerate(b):
        if c != 0:
            if i == len(b) - 1 and c == 0x80:
                return False
            return True
    return False


def num_decode(b, maxlen=4):
    if len(b) > maxlen:
        raise OutOfStatement(f"numeric operand longer than {maxlen} bytes")
    if not b:
        return 0
    v = int.from_bytes(b, "little")
    if b[-1] & 0x80:
        return -(v & ~(0x80 << (8 * (len(b) - 1))))
    return v


def num_decode_strict(b, maxlen=4):
    """CScriptNum for operands the statements do not restrict: longer than maxlen is a script error."""
    if len(b) > maxlen:
        raise ScriptError(f"script number longer than {maxlen} bytes")
    return num_decode(b, maxlen)


def num_encode(v):
    if v == 0:
        return b""
    neg = v < 0
    a = abs(v)
    out = bytearray()
    while a:
        out.append(a & 0xFF)
        a >>= 8
    if out[-1] & 0x80:
        out.append(0x80 if neg else 0)
    elif neg:
        out[-1] |= 0x80
    return bytes(out)


def parse_script(s):
    """-> list of (opcode, data or None); raises ScriptError on a truncated push."""
    ops = []
    i = 0
    n = len(s)
    while i < n:
        op = s[i]
        i += 1
        if op <= 0x4E:
            if op < 0x4C:
                ln = op
            elif op == 0x4C:
                if i + 1 > n:
                    raise ScriptError("bad push")
                ln = s[i]
                i += 1
            elif op == 0x4D:
                if i + 2 > n:
                    raise ScriptError("bad push")
                ln = int.from_bytes(s[i : i + 2], "little")
                i += 2
            else:
                if i + 4 > n:
                    raise ScriptError("bad push")
                ln = int.from_bytes(s[i : i + 4], "little")
                i += 4
            if i + ln > n:
                raise ScriptError("bad push")
            ops.append((op, s[i : i + ln]))
            i += ln
        else:
            ops.append((op, None))
    return ops


def is_push_only(s):
    try:
        return all(op <= 0x60 for op, _ in parse_script(s))
    except ScriptError:
        return False


OP_SUCCESS = set([80, 98] + list(range(126, 130)) + list(range(131, 135)) + [137, 138, 141, 142] + list(range(149, 154)) + list(range(187, 255)))
DISABLED = {126, 127, 128, 129, 131, 132, 133, 134, 141, 142, 149, 150, 151, 152, 153}
# opcodes buidl's dispatch table does not contain although consensus defines them
UNSUPPORTED_BY_IMPL = {171}  # OP_CODESEPARATOR


class Checker:
    """Transaction context for signature / timelock opcodes."""

    def __init__(self, tx, idx, spent, curve=None, relaxed=False):
        # relaxed: ignore the rules that only exist against malleability (NULLDUMMY, unexpected witness,
        # non-empty scriptSig next to a valid witness, exact witness stack sizes / clean stack, explicit
        # 0x00 sighash byte on a Schnorr signature).  What remains is authorisation.
        self.relaxed = relaxed
        self.tx, self.idx, self.spent = tx, idx, spent
        self.curve = curve or ec.SECP
        self.annex = None
        self.leaf_hash = None

    # --- ECDSA (base and witness v0)
    def parse_pubkey(self, pk):
        c = self.curve
        if len(pk) == 33 and pk[0] in (2, 3):
            return c.parse_sec(pk)
        if len(pk) == 65 and pk[0] in (4, 6, 7):
            x = int.from_bytes(pk[1:33], "big")
            y = int.from_bytes(pk[33:], "big")
            if x >= c.p or y >= c.p or not c.on_curve((x, y)):
                return None
            if pk[0] in (6, 7) and (y & 1) != (pk[0] & 1):
                return None
            return (x, y)
        return None

    def check_ecdsa(self, sig, pk, script_code, sigversion):
        if not sig:
            return False
        Q = self.parse_pubkey(pk)
        if Q is None:
            return False
        hash_type = sig[-1]
        rs = ec.der_parse_strict(sig[:-1])  # DERSIG already enforced by the caller
        if rs is None:
            return False
        if sigversion == "v0":
            d = txref.sighash_bip143(self.tx, self.idx, script_code, self.spent[self.idx][0], hash_type)
        else:
            d = txref.sighash_legacy(self.tx, self.idx, script_code, hash_type)
        return self.curve.ecdsa_verify(Q, int.from_bytes(d, "big"), rs[0], rs[1])

    # --- Schnorr (taproot key path and tapscript)
    def check_schnorr(self, sig, pk32, ext):
        """Returns True/False; raises ScriptError for malformed size / hash type."""
        if len(sig) == 64:
            ht = 0
        elif len(sig) == 65:
            ht = sig[64]
            if ht == 0 and not self.relaxed:
                raise ScriptError("schnorr sig hashtype 0 explicit")
            sig = sig[:64]
        else:
            raise ScriptError("schnorr sig size")
        d = txref.sighash_bip341(self.tx, self.idx, self.spent, ht, annex=self.annex, leaf_hash=self.leaf_hash if ext else None)
        if d is None:
            raise ScriptError("schnorr sig hashtype")
        if not self.curve.schnorr_verify(pk32, d, sig):
            raise ScriptError("schnorr sig")
        return True

    # --- timelocks
    def check_locktime(self, n):
        lt = self.tx["locktime"]
        if not ((lt < 500000000 and n < 500000000) or (lt >= 500000000 and n >= 500000000)):
            return False
        if n > lt:
            return False
        if self.tx["ins"][self.idx]["seq"] == 0xFFFFFFFF:
            return False
        return True

    def check_sequence(self, n):
        seq = self.tx["ins"][self.idx]["seq"]
        if (self.tx["version"] & 0xFFFFFFFF) < 2:
            return False
        if seq & (1 << 31):
            return False
        mask = (1 << 22) | 0xFFFF
        a, b = seq & mask, n & mask
        if not ((a < (1 << 22) and b < (1 << 22)) or (a >= (1 << 22) and b >= (1 << 22))):
            return False
        if b > a:
            return False
        return True


def check_sig_encoding(sig):
    """DERSIG: a non-empty signature must be strict DER + hashtype byte, else the script fails."""
    if not sig:
        return
    if ec.der_parse_strict(sig[:-1]) is None:
        raise ScriptError("sig der")


MAX_SCRIPT_SIZE = 10000
MAX_SCRIPT_ELEMENT_SIZE = 520


def eval_script(script, stack, checker, sigversion, altstack=None, limits=False):
    """Executes `script` (bytes) on `stack` (list, modified in place). Raises ScriptError on failure.
    sigversion in {"base", "v0", "tap"}.
    limits=True additionally enforces the size limits of EvalScript: a script longer than 10000 bytes (not in
    tapscript) and any push longer than 520 bytes, executed or not, are script errors."""
    if limits and sigversion != "tap" and len(script) > MAX_SCRIPT_SIZE:
        raise ScriptError("script size")
    ops = parse_script(script)
    if altstack is None:
        altstack = []
    vf = []  # exec stack
    else_seen = []
    for op, data in ops:
        fexec = all(vf)
        if op in (101, 102):  # VERIF / VERNOTIF: always invalid
            raise ScriptError("verif")
        if op in DISABLED:
            raise ScriptError("disabled opcode")
        if limits and data is not None and len(data) > MAX_SCRIPT_ELEMENT_SIZE:
            raise ScriptError("push size")
        if fexec and data is not None:
            stack.append(bytes(data))
            continue
        if not fexec and not (99 <= op <= 104):
            continue
        # ---- control flow
        if op in (99, 100):
            val = False
            if fexec:
                if not stack:
                    raise ScriptError("unbalanced conditional")
                top = stack.pop()
                if sigversion == "tap" and top not in (b"", b"\x01"):
                    raise ScriptError("minimalif")
                val = cast_to_bool(top)
                if op == 100:
                    val = not val
            vf.append(val)
            else_seen.append(False)
            continue
        if op == 103:
            if not vf:
                raise ScriptError("unbalanced conditional")
            else_seen[-1] = True  # informational only: every ELSE toggles, an IF may have several
            vf[-1] = not vf[-1]
            continue
        if op == 104:
            if not vf:
                raise ScriptError("unbalanced conditional")
            vf.pop()
            else_seen.pop()
            continue
        # ---- constants
        if op == 0:
            stack.append(b"")
        elif op == 79 or 81 <= op <= 96:
            stack.append(num_encode(op - 80))
        elif op == 97 or op == 176 or 179 <= op <= 185:
            pass
        elif op == 80 or op == 98 or op in (137, 138) or op > 186:
            if sigversion == "tap" and op in OP_SUCCESS:
                raise AssertionError("OP_SUCCESS must be handled before execution")
            raise ScriptError("bad opcode")
        elif op in UNSUPPORTED_BY_IMPL:
            raise OutOfStatement("OP_CODESEPARATOR is not implemented by the library")
        elif op == 105:
            if not stack:
                raise ScriptError("stack")
            if not cast_to_bool(stack.pop()):
                raise ScriptError("verify")
        elif op == 106:
            raise ScriptError("op_return")
        elif op == 107:
            if not stack:
                raise ScriptError("stack")
            altstack.append(stack.pop())
        elif op == 108:
            if not altstack:
                raise ScriptError("altstack")
            stack.append(altstack.pop())
        elif op == 109:
            need(stack, 2)
            del stack[-2:]
        elif op == 110:
            need(stack, 2)
            stack.extend(stack[-2:])
        elif op == 111:
            need(stack, 3)
            stack.extend(stack[-3:])
        elif op == 112:
            need(stack, 4)
            stack.extend(stack[-4:-2])
        elif op == 113:
            need(stack, 6)
            x = stack[-6:-4]
            del stack[-6:-4]
            stack.extend(x)
        elif op == 114:
            need(stack, 4)
            stack[-4:] = stack[-2:] + stack[-4:-2]
        elif op == 115:
            need(stack, 1)
            if cast_to_bool(stack[-1]):
                stack.append(stack[-1])
        elif op == 116:
            stack.append(num_encode(len(stack)))
        elif op == 117:
            need(stack, 1)
            stack.pop()
        elif op == 118:
            need(stack, 1)
            stack.append(stack[-1])
        elif op == 119:
            need(stack, 2)
            del stack[-2]
        elif op == 120:
            need(stack, 2)
            stack.append(stack[-2])
        elif op in (121, 122):
            need(stack, 2)
            n = num_decode_strict(stack[-1], 4)
            stack.pop()
            if n < 0 or n >= len(stack):
                raise ScriptError("pick/roll range")
            v = stack[-n - 1]
            if op == 122:
                del stack[-n - 1]
            stack.append(v)
        elif op == 123:
            need(stack, 3)
            stack.append(stack.pop(-3))
        elif op == 124:
            need(stack, 2)
            stack.append(stack.pop(-2))
        elif op == 125:
            need(stack, 2)
            stack.insert(-2, stack[-1])
        elif op == 130:
            need(stack, 1)
            stack.append(num_encode(len(stack[-1])))
        elif op in (135, 136):
            need(stack, 2)
            b = stack.pop()
            a = stack.pop()
            eq = a == b
            if op == 136:
                if not eq:
                    raise ScriptError("equalverify")
            else:
                stack.append(b"\x01" if eq else b"")
        elif op in (139, 140, 143, 144, 145, 146):
            need(stack, 1)
            n = num_decode(stack[-1])
            stack.pop()
            r = {139: n + 1, 140: n - 1, 143: -n, 144: abs(n), 145: int(n == 0), 146: int(n != 0)}[op]
            stack.append(num_encode(r))
        elif op in (147, 148) or 154 <= op <= 164:
            need(stack, 2)
            b = num_decode(stack[-1])
            a = num_decode(stack[-2])
            del stack[-2:]
            r = {
                147: a + b,
                148: a - b,
                154: int(a != 0 and b != 0),
                155: int(a != 0 or b != 0),
                156: int(a == b),
                157: int(a == b),
                158: int(a != b),
                159: int(a < b),
                160: int(a > b),
                161: int(a <= b),
                162: int(a >= b),
                163: min(a, b),
                164: max(a, b),
            }[op]
            if op == 157:
                if not r:
                    raise ScriptError("numequalverify")
            else:
                stack.append(num_encode(r))
        elif op == 165:
            need(stack, 3)
            mx = num_decode(stack[-1])
            mn = num_decode(stack[-2])
            x = num_decode(stack[-3])
            del stack[-3:]
            stack.append(num_encode(int(mn <= x < mx)))
        elif 166 <= op <= 170:
            need(stack, 1)
            v = stack.pop()
            if op == 166:
                h = hashlib.new("ripemd160", v).digest()
            elif op == 167:
                h = hashlib.sha1(v).digest()
            elif op == 168:
                h = hashlib.sha256(v).digest()
            elif op == 169:
                h = txref.h160(v)
            else:
                h = txref.dsha(v)
            stack.append(h)
        elif op in (172, 173):
            need(stack, 2)
            pk = stack.pop()
            sig = stack.pop()
            if sigversion == "tap":
                ok = tap_checksig(checker, sig, pk)
            else:
                check_sig_encoding(sig)
                ok = checker.check_ecdsa(sig, pk, script, sigversion)
            if op == 173:
                if not ok:
                    raise ScriptError("checksigverify")
            else:
                stack.append(b"\x01" if ok else b"")
        elif op == 186:
            if sigversion != "tap":
                raise ScriptError("bad opcode")
            need(stack, 3)
            pk = stack.pop()
            n = num_decode(stack.pop())
            sig = stack.pop()
            ok = tap_checksig(checker, sig, pk)
            stack.append(num_encode(n + (1 if ok else 0)))
        elif op in (174, 175):
            if sigversion == "tap":
                raise ScriptError("checkmultisig in tapscript")
            need(stack, 1)
            nk = num_decode(stack[-1])
            if nk < 0 or nk > 20:
                raise ScriptError("pubkey count")
            need(stack, 2 + nk)
            ns = num_decode(stack[-2 - nk])
            if ns < 0 or ns > nk:
                raise ScriptError("sig count")
            need(stack, 3 + nk + ns)
            keys = [stack[-2 - j] for j in range(nk)]  # top-down order
            sigs = [stack[-3 - nk - j] for j in range(ns)]
            dummy = stack[-3 - nk - ns]
            ik = isg = 0
            success = True
            rk, rs = nk, ns
            while success and rs > 0:
                sg, pk = sigs[isg], keys[ik]
                check_sig_encoding(sg)
                if checker.check_ecdsa(sg, pk, script, sigversion):
                    isg += 1
                    rs -= 1
                ik += 1
                rk -= 1
                if rs > rk:
                    success = False
            del stack[-3 - nk - ns :]
            if dummy != b"" and not checker.relaxed:
                raise ScriptError("nulldummy")
            if op == 175:
                if not success:
                    raise ScriptError("checkmultisigverify")
            else:
                stack.append(b"\x01" if success else b"")
        elif op == 177:
            need(stack, 1)
            n = num_decode_strict(stack[-1], 5)
            if n < 0:
                raise ScriptError("negative locktime")
            if not checker.check_locktime(n):
                raise ScriptError("unsatisfied locktime")
        elif op == 178:
            need(stack, 1)
            n = num_decode_strict(stack[-1], 5)
            if n < 0:
                raise ScriptError("negative sequence")
            if not (n & (1 << 31)):
                if not checker.check_sequence(n):
                    raise ScriptError("unsatisfied sequence")
        else:
            raise ScriptError(f"bad opcode {op}")
    if vf:
        raise ScriptError("unbalanced conditional")
    return stack


def need(stack, n):
    if len(stack) < n:
        raise ScriptError("stack size")


def tap_checksig(checker, sig, pk):
    if len(pk) == 0:
        raise ScriptError("empty pubkey")
    if len(pk) == 32:
        if not sig:
            return False
        return checker.check_schnorr(sig, pk, ext=True)
    # unknown public key type: any non-empty signature counts as valid
    return bool(sig)


def witness_program(spk):
    if len(spk) < 4 or len(spk) > 42:
        return None
    if spk[0] != 0 and not (0x51 <= spk[0] <= 0x60):
        return None
    if spk[1] + 2 != len(spk):
        return None
    return (0 if spk[0] == 0 else spk[0] - 0x50), spk[2:]


def is_p2sh(spk):
    return len(spk) == 23 and spk[0] == 0xA9 and spk[1] == 0x14 and spk[22] == 0x87


def verify_witness_program(witness, version, program, checker, is_p2sh_wrapped):
    stack = list(witness)
    c = checker
    if version == 0:
        if len(program) == 32:
            if not stack:
                raise ScriptError("witness empty")
            script = stack.pop()
            if hashlib.sha256(script).digest() != program:
                raise ScriptError("witness program mismatch")
        elif len(program) == 20:
            if len(stack) != 2 and not (c.relaxed and len(stack) > 2):
                raise ScriptError("witness program mismatch")
            script = b"\x76\xa9\x14" + program + b"\x88\xac"
        else:
            raise ScriptError("witness program wrong length")
        if any(len(x) > 520 for x in stack):
            raise ScriptError("push size")
        eval_script(script, stack, c, "v0")
        if (len(stack) != 1 and not (c.relaxed and stack)) or not cast_to_bool(stack[-1]):
            raise ScriptError("witness eval false / cleanstack")
        return
    if version == 1 and len(program) == 32 and not is_p2sh_wrapped:
        if not stack:
            raise ScriptError("witness empty")
        if len(stack) >= 2 and stack[-1] and stack[-1][0] == 0x50:
            c.annex = stack.pop()
        else:
            c.annex = None
        if len(stack) == 1:
            c.leaf_hash = None
            c.check_schnorr(stack[0], program, ext=False)
            return
        control = stack.pop()
        script = stack.pop()
        if len(control) < 33 or len(control) > 33 + 32 * 128 or (len(control) - 33) % 32:
            raise ScriptError("control size")
        leaf_ver = control[0] & 0xFE
        k = txref.tapleaf_hash(script, leaf_ver)
        c.leaf_hash = k
        for j in range(33, len(control), 32):
            e = control[j : j + 32]
            k = ec.tagged("TapBranch", k + e if k < e else e + k)
        out = c.curve.taproot_tweak(int.from_bytes(control[1:33], "big"), k)
        if out is None:
            raise ScriptError("taproot commitment")
        Q, par, _ = out
        if Q[0] != int.from_bytes(program, "big") or par != (control[0] & 1):
            raise ScriptError("taproot commitment")
        if leaf_ver == 0xC0:
            try:
                ops = parse_script(script)
            except ScriptError:
                ops = None
            # OP_SUCCESSx anywhere before a parse failure makes the script succeed
            i = 0
            pos = 0
            try:
                for op, _ in iter_ops_until_error(script):
                    if op in OP_SUCCESS:
                        return
            except ScriptError:
                raise
            if ops is None:
                raise ScriptError("bad opcode")
            if any(len(x) > 520 for x in stack):
                raise ScriptError("push size")
            eval_script(script, stack, c, "tap")
            if (len(stack) != 1 and not (c.relaxed and stack)) or not cast_to_bool(stack[-1]):
                raise ScriptError("tapscript eval false / cleanstack")
        return  # unknown leaf version: anyone can spend
    # future witness versions / lengths: anyone can spend
    return


def iter_ops_until_error(s):
    """Yields ops; raises ScriptError at the first undecodable push (after yielding what preceded it)."""
    i, n = 0, len(s)
    while i < n:
        op = s[i]
        i += 1
        if op <= 0x4E:
            if op < 0x4C:
                ln = op
            else:
                w = {0x4C: 1, 0x4D: 2, 0x4E: 4}[op]
                if i + w > n:
                    raise ScriptError("bad push")
                ln = int.from_bytes(s[i : i + w], "little")
                i += w
            if i + ln > n:
                raise ScriptError("bad push")
            yield op, s[i : i + ln]
            i += ln
        else:
            yield op, None


def verify_input(tx, idx, spent, curve=None, relaxed=False):
    """True iff input idx of the abstract tx is a consensus-valid spend of spent[idx] = (amount, spk).
    relaxed=True: authorisation only (malleability-only rules ignored, see Checker)."""
    try:
        _verify_input(tx, idx, spent, curve, relaxed)
        return True
    except ScriptError:
        return False


def _verify_input(tx, idx, spent, curve, relaxed=False):
    checker = Checker(tx, idx, spent, curve, relaxed)
    txin = tx["ins"][idx]
    script_sig = txin["script"]
    witness = txin.get("witness", []) if tx.get("segwit") else []
    spk = spent[idx][1]
    p2sh = is_p2sh(spk)
    if p2sh and not is_push_only(script_sig):
        raise ScriptError("sig pushonly")
    stack = []
    eval_script(script_sig, stack, checker, "base")
    stack_copy = list(stack)
    eval_script(spk, stack, checker, "base")
    if not stack or not cast_to_bool(stack[-1]):
        raise ScriptError("eval false")
    had_witness = False
    wp = witness_program(spk)
    if wp is not None:
        had_witness = True
        if script_sig != b"" and not relaxed:
            raise ScriptError("witness malleated")
        verify_witness_program(witness, wp[0], wp[1], checker, False)
    if p2sh:
        stack = stack_copy
        if not stack:
            raise ScriptError("p2sh empty")
        redeem = stack.pop()
        eval_script(redeem, stack, checker, "base")
        if not stack or not cast_to_bool(stack[-1]):
            raise ScriptError("eval false")
        wp = witness_program(redeem)
        if wp is not None:
            had_witness = True
            if script_sig != txref.push(redeem) and not relaxed:
                raise ScriptError("witness malleated p2sh")
            verify_witness_program(witness, wp[0], wp[1], checker, True)
    if not had_witness and witness and not relaxed:
        raise ScriptError("witness unexpected")


def run_program(script, stack=None, altstack=None, tx=None, idx=0, sigversion="base", limits=True):
    """Helper for C07: execute a bare script with a given context (size limits enforced unless limits=False).
    Returns ("ok", stack, altstack) | ("fail",) ; raises OutOfStatement."""
    tx = tx or {"version": 1, "locktime": 0, "segwit": False, "ins": [{"prev": b"\x00" * 32, "index": 0, "script": b"", "seq": 0xFFFFFFFF}], "outs": []}
    checker = Checker(tx, idx, [(0, b"")] * len(tx["ins"]))
    st = list(stack or [])
    alt = list(altstack or [])
    try:
        eval_script(script, st, checker, sigversion, alt, limits=limits)
    except ScriptError:
        return ("fail",)
    return ("ok", st, alt)


def selftest():
    # script_tests.json-style vectors: (scriptSig stack, script hex ops, expected success with true top)
    T = lambda script, stack=None: (lambda r: r[0] == "ok" and bool(r[1]) and cast_to_bool(r[1][-1]))(run_program(bytes(script), stack))
    assert T([0x51])
    assert not T([0x00])
    assert not T([0x01, 0x80])  # negative zero is false
    assert T([0x01, 0x00, 0x91])  # 0 NOT -> 1
    assert T([0x52, 0x53, 0x93, 0x55, 0x87])  # 2 3 ADD 5 EQUAL
    assert T([0x55, 0x53, 0x94, 0x52, 0x87])  # 5 3 SUB 2 EQUAL
    assert T([0x52, 0x53, 0x9F])  # 2 3 LESSTHAN
    assert not T([0x53, 0x52, 0x9F])
    assert T([0x53, 0x52, 0x56, 0xA5])  # 3 2 6 WITHIN
    assert not T([0x56, 0x52, 0x56, 0xA5])
    assert T([0x51, 0x63, 0x51, 0x67, 0x00, 0x68])  # 1 IF 1 ELSE 0 ENDIF
    assert not T([0x00, 0x63, 0x51, 0x67, 0x00, 0x68])
    assert T([0x00, 0x64, 0x51, 0x68])  # 0 NOTIF 1 ENDIF
    assert not T([0x51, 0x63, 0x51])  # unbalanced
    assert not T([0x51, 0x68])
    assert not T([0x51, 0x65])  # VERIF
    assert not T([0x00, 0x63, 0x65, 0x68, 0x51])  # VERIF even when not executed
    assert T([0x00, 0x63, 0x6A, 0x68, 0x51])  # RETURN not executed is fine
    assert not T([0x51, 0x7E])  # disabled CAT
    assert not T([0x00, 0x63, 0x7E, 0x68, 0x51])  # disabled even when not executed
    r = run_program(bytes([0x51, 0x52, 0x53, 0x54, 0x55, 0x56, 0x71]))  # 2ROT
    assert r[1] == [b"\x03", b"\x04", b"\x05", b"\x06", b"\x01", b"\x02"], r
    # several ELSE per IF: every ELSE toggles
    assert T([0x00, 0x63, 0x67, 0x51, 0x67, 0x00, 0x68])  # 0 IF ELSE 1 ELSE 0 ENDIF
    assert T([0x51, 0x63, 0x00, 0x67, 0x00, 0x67, 0x51, 0x68])  # 1 IF 0 ELSE 0 ELSE 1 ENDIF
    assert not T([0x51, 0x63, 0x51, 0x67, 0x51, 0x67, 0x00, 0x68])  # 1 IF 1 ELSE 1 ELSE 0 ENDIF
    assert not T([0x00, 0x64, 0x51, 0x67, 0x51, 0x67, 0x00, 0x68])  # 0 NOTIF 1 ELSE 1 ELSE 0 ENDIF
    # script numbers: PICK/ROLL index at most 4 bytes, CLTV/CSV operand at most 5 bytes
    assert T([0x51, 0x04, 0, 0, 0, 0, 0x79])  # 1 <00000000> PICK
    assert not T([0x51, 0x05, 0, 0, 0, 0, 0, 0x79])  # 1 <0000000000> PICK
    assert not T([0x51, 0x05, 0, 0, 0, 0, 0, 0x7A])  # ... ROLL
    _tx = {"version": 2, "locktime": 200, "segwit": False, "ins": [{"prev": b"\x00" * 32, "index": 0, "script": b"", "seq": 20}], "outs": []}
    TT = lambda script: (lambda r: r[0] == "ok" and bool(r[1]) and cast_to_bool(r[1][-1]))(run_program(bytes(script), tx=_tx))
    assert TT([0x05, 100, 0, 0, 0, 0, 0xB1]) and not TT([0x06, 100, 0, 0, 0, 0, 0, 0xB1])  # CLTV
    assert TT([0x05, 10, 0, 0, 0, 0, 0xB2]) and not TT([0x06, 10, 0, 0, 0, 0, 0, 0xB2])  # CSV
    # size limits (run_program enforces them): push of 520 / 521 bytes, also unexecuted; script of 10000 / 10001 bytes
    assert T([0x4D, 0x08, 0x02] + [1] * 520) and not T([0x4D, 0x09, 0x02] + [1] * 521)
    assert T([0x00, 0x63, 0x4D, 0x08, 0x02] + [1] * 520 + [0x68, 0x51]) and not T([0x00, 0x63, 0x4D, 0x09, 0x02] + [1] * 521 + [0x68, 0x51])
    _big = ([0x4D, 0x08, 0x02] + [1] * 520 + [0x75]) * 19  # 19 x (push 520, DROP) = 9956 bytes
    assert T(_big + [0x61] * 43 + [0x51]) and not T(_big + [0x61] * 44 + [0x51])
    r = run_program(bytes([0x51, 0x52, 0x53, 0x7B]))  # ROT
    assert r[1] == [b"\x02", b"\x03", b"\x01"]
    r = run_program(bytes([0x51, 0x52, 0x7D]))  # TUCK
    assert r[1] == [b"\x02", b"\x01", b"\x02"]
    r = run_program(bytes([0x51, 0x52, 0x53, 0x51, 0x79]))  # PICK 1
    assert r[1] == [b"\x01", b"\x02", b"\x03", b"\x02"]
    r = run_program(bytes([0x51, 0x52, 0x53, 0x52, 0x7A]))  # ROLL 2
    assert r[1] == [b"\x02", b"\x03", b"\x01"]
    assert run_program(bytes([0x51, 0x4F, 0x79])) == ("fail",)  # PICK -1
    assert run_program(bytes([0x51, 0x51, 0x79])) == ("fail",)  # PICK out of range
    r = run_program(bytes([0x51, 0x6B, 0x52, 0x6C]))
    assert r[1] == [b"\x02", b"\x01"] and r[2] == []
    assert num_encode(-1) == b"\x81" and num_encode(128) == b"\x80\x00" and num_encode(-128) == b"\x80\x80" and num_encode(255) == b"\xff\x00"
    for v in list(range(-70000, 70000, 37)) + [2**31 - 1, -(2**31) + 1]:
        assert num_decode(num_encode(v), 5) == v
    assert T([0x01, 0x61, 0xA8, 0x20] + list(hashlib.sha256(b"a").digest()) + [0x87])
    # CLTV / CSV
    def ctx(lock, seq, ver):
        return {"version": ver, "locktime": lock, "segwit": False, "ins": [{"prev": b"\x00" * 32, "index": 0, "script": b"", "seq": seq}], "outs": []}
    ok = lambda script, tx: run_program(script, tx=tx)[0] == "ok"
    s100 = b"\x01\x64\xb1"
    assert ok(s100, ctx(100, 0, 1)) and ok(s100, ctx(101, 0, 1))
    assert not ok(s100, ctx(99, 0, 1)) and not ok(s100, ctx(100, 0xFFFFFFFF, 1)) and not ok(s100, ctx(500000000, 0, 1))
    assert not ok(b"\x4f\xb1", ctx(100, 0, 1)) and not ok(b"\xb1", ctx(100, 0, 1))
    c100 = b"\x01\x64\xb2"
    assert ok(c100, ctx(0, 100, 2)) and not ok(c100, ctx(0, 99, 2)) and not ok(c100, ctx(0, 100, 1))
    assert not ok(c100, ctx(0, 100 | (1 << 31), 2)) and not ok(c100, ctx(0, 100 | (1 << 22), 2))
    assert ok(b"\x05\x00\x00\x00\x80\x00\xb2", ctx(0, 0xFFFFFFFF, 1))  # disable flag in operand: NOP
    # signature paths: P2PKH, P2WPKH, P2TR key path built with the reference signer
    c = ec.SECP
    d = 0x1234567
    P = c.mulg(d)
    pk = c.sec(P)
    base = {"version": 2, "locktime": 0, "segwit": False, "ins": [{"prev": b"\x11" * 32, "index": 0, "script": b"", "seq": 0xFFFFFFFE, "witness": []}], "outs": [{"amount": 900, "script": b"\x51"}]}
    spk = b"\x76\xa9\x14" + txref.h160(pk) + b"\x88\xac"
    z = int.from_bytes(txref.sighash_legacy(base, 0, spk, 1), "big")
    sig = ec.der_sig(*c.ecdsa_sign(d, z)) + b"\x01"
    tx = dict(base, ins=[dict(base["ins"][0], script=txref.push(sig) + txref.push(pk))])
    assert verify_input(tx, 0, [(1000, spk)])
    bad = dict(base, ins=[dict(base["ins"][0], script=txref.push(sig) + txref.push(pk))], locktime=1)
    assert not verify_input(bad, 0, [(1000, spk)])
    wspk = b"\x00\x14" + txref.h160(pk)
    z = int.from_bytes(txref.sighash_bip143(base, 0, spk, 1000, 1), "big")
    sig = ec.der_sig(*c.ecdsa_sign(d, z)) + b"\x01"
    tx = dict(base, segwit=True, ins=[dict(base["ins"][0], witness=[sig, pk])])
    assert verify_input(tx, 0, [(1000, wspk)])
    assert not verify_input(tx, 0, [(1001, wspk)])
    assert not verify_input(dict(tx, ins=[dict(tx["ins"][0], script=b"\x51")]), 0, [(1000, wspk)])
    Q, par, t = c.taproot_tweak(P[0], b"")
    tspk = b"\x51\x20" + ec.b32(Q[0])
    dd = d if P[1] % 2 == 0 else c.n - d
    dq = (dd + t) % c.n
    m = txref.sighash_bip341(base, 0, [(1000, tspk)], 0)
    s64 = c.schnorr_sign(dq, m, b"\x00" * 32)
    tx = dict(base, segwit=True, ins=[dict(base["ins"][0], witness=[s64])])
    assert verify_input(tx, 0, [(1000, tspk)])
    assert not verify_input(dict(base, segwit=True, ins=[dict(base["ins"][0], witness=[b"\x50" + s64[1:]])]), 0, [(1000, tspk)])
    assert not verify_input(dict(base, segwit=True, ins=[dict(base["ins"][0], witness=[])]), 0, [(1000, tspk)])
    # 1-of-2 bare multisig with a foreign signature must fail
    d2, d3 = 0x777, 0x999
    ms = bytes([0x51]) + txref.push(c.sec(c.mulg(d))) + txref.push(c.sec(c.mulg(d2))) + bytes([0x52, 0xAE])
    z = int.from_bytes(txref.sighash_legacy(base, 0, ms, 1), "big")
    good = ec.der_sig(*c.ecdsa_sign(d2, z)) + b"\x01"
    foreign = ec.der_sig(*c.ecdsa_sign(d3, z)) + b"\x01"
    assert verify_input(dict(base, ins=[dict(base["ins"][0], script=b"\x00" + txref.push(good))]), 0, [(1000, ms)])
    assert not verify_input(dict(base, ins=[dict(base["ins"][0], script=b"\x00" + txref.push(foreign))]), 0, [(1000, ms)])
    assert not verify_input(dict(base, ins=[dict(base["ins"][0], script=b"\x51" + txref.push(good))]), 0, [(1000, ms)])  # NULLDUMMY
    n = selftest_history()
    return True


def selftest_history():
    """Real transactions recorded in the repository's test data (third-party data): every input whose
    previous transaction is also recorded must be valid under the strict reference verifier."""
    import json
    import os

    path = os.path.join(os.environ.get("VERIF_REPO", "/repo"), "buidl", "test", "tx.cache")
    if not os.path.exists(path):
        return 0
    raw = json.load(open(path))
    txs = {}
    for k, v in raw.items():
        try:
            t = txref.parse_tx(bytes.fromhex(v))
        except Exception:
            continue
        if txref.txid(t) == k:
            txs[k] = t
    n = 0
    for k, tx in txs.items():
        spent = []
        for i in tx["ins"]:
            p = txs.get(i["prev"].hex())
            spent.append((p["outs"][i["index"]]["amount"], p["outs"][i["index"]]["script"]) if p and i["index"] < len(p["outs"]) else None)
        if any(x is None for x in spent):
            continue
        for idx in range(len(tx["ins"])):
            assert verify_input(tx, idx, spent), ("historical input rejected by the reference", k, idx)
            assert verify_input(tx, idx, spent, relaxed=True)
            n += 1
    return n


if __name__ == "__main__":
    selftest()
    print("interp selftest ok (historical inputs verified: %d)" % selftest_history())
