"""Reference text encodings for keys and addresses: Base58 / Base58Check, Bech32 / Bech32m
(BIP173 / BIP350) segwit addresses, WIF, BIP32 extended-key payloads, and the five standard
scriptPubKey templates with their per-network address forms.

Written from the specifications (Bitcoin wiki "Base58Check encoding", BIP173, BIP350, BIP141,
BIP32, SLIP-132); shares no code with buidl; only hashlib/struct.
"""
import hashlib
import struct

# ------------------------------------------------------------------ hashes
def sha256(b):
    return hashlib.sha256(b).digest()


def dsha(b):
    return sha256(sha256(b))


# ------------------------------------------------------------------ Base58
B58 = "123456789ABCDEFGHJKLMNPQRSTUVWXYZabcdefghijkmnopqrstuvwxyz"
B58_INDEX = {c: i for i, c in enumerate(B58)}


def b58encode(data):
    """Byte-wise long division (the way Bitcoin Core's EncodeBase58 works): every leading
    zero byte becomes one '1', the rest is the big-endian number in base 58."""
    zeros = 0
    while zeros < len(data) and data[zeros] == 0:
        zeros += 1
    digits = []  # little-endian base-58 digits
    for byte in data[zeros:]:
        carry = byte
        for k in range(len(digits)):
            carry += digits[k] << 8
            digits[k] = carry % 58
            carry //= 58
        while carry:
            digits.append(carry % 58)
            carry //= 58
    return "1" * zeros + "".join(B58[d] for d in reversed(digits))


def b58decode(s):
    """Inverse of b58encode.  Returns bytes, or None when s contains a non-alphabet character."""
    ones = 0
    while ones < len(s) and s[ones] == "1":
        ones += 1
    out = []  # little-endian bytes
    for ch in s[ones:]:
        if ch not in B58_INDEX:
            return None
        carry = B58_INDEX[ch]
        for k in range(len(out)):
            carry += out[k] * 58
            out[k] = carry & 0xFF
            carry >>= 8
        while carry:
            out.append(carry & 0xFF)
            carry >>= 8
    return b"\x00" * ones + bytes(reversed(out))


def b58decode_fast(s):
    """Same function through Python big integers (used in the large substitution loops;
    cross-checked against b58decode in selftest)."""
    ones = len(s) - len(s.lstrip("1"))
    n = 0
    try:
        for ch in s[ones:]:
            n = n * 58 + B58_INDEX[ch]
    except KeyError:
        return None
    return b"\x00" * ones + (n.to_bytes((n.bit_length() + 7) // 8, "big") if n else b"")


def b58check_encode(payload):
    return b58encode(payload + dsha(payload)[:4])


def b58check_decode(s, fast=False):
    """Returns the payload, or None when s is not a valid Base58Check string
    (non-alphabet character, fewer than 4 bytes, checksum mismatch)."""
    raw = b58decode_fast(s) if fast else b58decode(s)
    if raw is None or len(raw) < 4:
        return None
    payload, chk = raw[:-4], raw[-4:]
    if dsha(payload)[:4] != chk:
        return None
    return payload


# ------------------------------------------------------------------ Bech32 / Bech32m
CHARSET = "qpzry9x8gf2tvdw0s3jn54khce6mua7l"
CHARSET_INDEX = {c: i for i, c in enumerate(CHARSET)}
BECH32_CONST = 1
BECH32M_CONST = 0x2BC830A3
_GEN = (0x3B6A57B2, 0x26508E6D, 0x1EA119FA, 0x3D4233DD, 0x2A1462B3)


def polymod(values, start=1):
    """BCH checksum of BIP173.  start=0 gives the linear part (used for syndrome tables)."""
    chk = start
    for v in values:
        top = chk >> 25
        chk = ((chk & 0x1FFFFFF) << 5) ^ v
        for i in range(5):
            if (top >> i) & 1:
                chk ^= _GEN[i]
    return chk


def hrp_expand(hrp):
    return [ord(c) >> 5 for c in hrp] + [0] + [ord(c) & 31 for c in hrp]


def bech_checksum(hrp, data, const):
    pm = polymod(hrp_expand(hrp) + list(data) + [0] * 6) ^ const
    return [(pm >> 5 * (5 - i)) & 31 for i in range(6)]


def bech_encode(hrp, data, const):
    return hrp + "1" + "".join(CHARSET[d] for d in list(data) + bech_checksum(hrp, data, const))


class Invalid(Exception):
    pass


def bech_decode(s):
    """BIP173 'Bech32' section decoder.  Returns (hrp, data-without-checksum, const) or raises Invalid(reason)."""
    if any(ord(c) < 33 or ord(c) > 126 for c in s):
        raise Invalid("char-range")
    if s.lower() != s and s.upper() != s:
        raise Invalid("mixed-case")
    s = s.lower()
    pos = s.rfind("1")
    if pos < 1:
        raise Invalid("no-hrp")
    if pos + 7 > len(s):
        raise Invalid("short-data")
    if len(s) > 90:
        raise Invalid("too-long")
    hrp = s[:pos]
    try:
        data = [CHARSET_INDEX[c] for c in s[pos + 1 :]]
    except KeyError:
        raise Invalid("bad-char")
    pm = polymod(hrp_expand(hrp) + data)
    if pm == BECH32_CONST:
        return hrp, data[:-6], BECH32_CONST
    if pm == BECH32M_CONST:
        return hrp, data[:-6], BECH32M_CONST
    raise Invalid("checksum")


def regroup(data, frombits, tobits, pad):
    """Bit regrouping; without padding: fails on > (frombits-1) left-over bits or non-zero left-over."""
    acc = bits = 0
    out = []
    for v in data:
        if v < 0 or v >> frombits:
            return None
        acc = (acc << frombits) | v
        bits += frombits
        while bits >= tobits:
            bits -= tobits
            out.append((acc >> bits) & ((1 << tobits) - 1))
        acc &= (1 << bits) - 1
    if pad:
        if bits:
            out.append((acc << (tobits - bits)) & ((1 << tobits) - 1))
    else:
        if bits >= frombits:
            return None
        if acc:
            return None
    return out


def const_for_version(ver):
    return BECH32_CONST if ver == 0 else BECH32M_CONST


def segwit_encode_raw(hrp, ver, prog):
    """Encoding only (no validity rules on version/length): version 0 -> Bech32, else Bech32m."""
    return bech_encode(hrp, [ver] + regroup(prog, 8, 5, True), const_for_version(ver))


def segwit_decode(hrp, addr, strict_v0=True):
    """BIP173/BIP350 segwit address decoder.  Returns (version, program bytes) or raises Invalid.
    strict_v0=False drops only the 'version 0 must be 20 or 32 bytes' rule."""
    got_hrp, data, const = bech_decode(addr)
    if got_hrp != hrp:
        raise Invalid("hrp")
    if not data:
        raise Invalid("empty-data")
    ver = data[0]
    if ver > 16:
        raise Invalid("version")
    prog = regroup(data[1:], 5, 8, False)
    if prog is None:
        raise Invalid("padding")
    if len(prog) < 2 or len(prog) > 40:
        raise Invalid("program-length")
    if strict_v0 and ver == 0 and len(prog) not in (20, 32):
        raise Invalid("v0-length")
    if const != const_for_version(ver):
        raise Invalid("wrong-constant")
    return ver, bytes(prog)


def segwit_encode(hrp, ver, prog):
    s = segwit_encode_raw(hrp, ver, prog)
    segwit_decode(hrp, s)  # raises for version/length combinations BIP173/350 forbid
    return s


def segwit_valid(hrp, addr, strict_v0=True):
    try:
        segwit_decode(hrp, addr, strict_v0)
        return True
    except Invalid:
        return False


def syndrome_table(hrp, ndata):
    """T[i][d] = change of polymod(hrp_expand(hrp)+data) when data[i] is XORed with d
    (the checksum is affine over GF(2), so the change does not depend on the data)."""
    nh = 2 * len(hrp) + 1
    T = []
    for i in range(ndata):
        row = [0] * 32
        for d in range(1, 32):
            e = [0] * (nh + ndata)
            e[nh + i] = d
            row[d] = polymod(e, start=0)
        T.append(row)
    return T


# ------------------------------------------------------------------ networks, templates
NETWORKS = {
    # name: (segwit hrp, p2pkh version, p2sh version, WIF prefix)
    "mainnet": ("bc", 0x00, 0x05, 0x80),
    "testnet": ("tb", 0x6F, 0xC4, 0xEF),
    "signet": ("tb", 0x6F, 0xC4, 0xEF),
    "regtest": ("bcrt", 0x6F, 0xC4, 0xEF),
}
TEMPLATES = ("p2pkh", "p2sh", "p2wpkh", "p2wsh", "p2tr")
TEMPLATE_HASHLEN = {"p2pkh": 20, "p2sh": 20, "p2wpkh": 20, "p2wsh": 32, "p2tr": 32}


def script_pubkey(template, h):
    if len(h) != TEMPLATE_HASHLEN[template]:
        raise ValueError("hash length")
    if template == "p2pkh":
        return b"\x76\xa9\x14" + h + b"\x88\xac"
    if template == "p2sh":
        return b"\xa9\x14" + h + b"\x87"
    if template == "p2wpkh":
        return b"\x00\x14" + h
    if template == "p2wsh":
        return b"\x00\x20" + h
    if template == "p2tr":
        return b"\x51\x20" + h
    raise ValueError(template)


def witness_script_pubkey(ver, prog):
    return bytes([0 if ver == 0 else 0x50 + ver, len(prog)]) + prog


def address(template, h, network):
    hrp, pkh, sh, _ = NETWORKS[network]
    if template == "p2pkh":
        return b58check_encode(bytes([pkh]) + h)
    if template == "p2sh":
        return b58check_encode(bytes([sh]) + h)
    if template in ("p2wpkh", "p2wsh"):
        return segwit_encode(hrp, 0, h)
    if template == "p2tr":
        return segwit_encode(hrp, 1, h)
    raise ValueError(template)


def address_decode(addr, network):
    """(template, hash) for a standard address of the given network, else None."""
    hrp, pkh, sh, _ = NETWORKS[network]
    p = b58check_decode(addr)
    if p is not None:
        if len(p) == 21 and p[0] == pkh:
            return "p2pkh", p[1:]
        if len(p) == 21 and p[0] == sh:
            return "p2sh", p[1:]
        return None
    try:
        ver, prog = segwit_decode(hrp, addr)
    except Invalid:
        return None
    if ver == 0:
        return ("p2wpkh" if len(prog) == 20 else "p2wsh"), prog
    if ver == 1 and len(prog) == 32:
        return "p2tr", prog
    return None


# ------------------------------------------------------------------ WIF
def wif_encode(secret, compressed, network):
    body = bytes([NETWORKS[network][3]]) + secret.to_bytes(32, "big") + (b"\x01" if compressed else b"")
    return b58check_encode(body)


def wif_decode(s):
    """(secret, compressed, is_mainnet) or None."""
    p = b58check_decode(s)
    if p is None or p[:1] not in (b"\x80", b"\xef"):
        return None
    if len(p) == 33:
        comp = False
    elif len(p) == 34 and p[33] == 1:
        comp = True
    else:
        return None
    return int.from_bytes(p[1:33], "big"), comp, p[0] == 0x80


# ------------------------------------------------------------------ extended keys (BIP32 layout, SLIP-132 versions)
XPRV_VERSIONS = {
    "xprv": "0488ade4", "yprv": "049d7878", "zprv": "04b2430c", "Yprv": "0295b005", "Zprv": "02aa7a99",
    "tprv": "04358394", "uprv": "044a4e28", "vprv": "045f18bc", "Uprv": "024285b5", "Vprv": "02575048",
}
XPUB_VERSIONS = {
    "xpub": "0488b21e", "ypub": "049d7cb2", "zpub": "04b24746", "Ypub": "0295b43f", "Zpub": "02aa7ed3",
    "tpub": "043587cf", "upub": "044a5262", "vpub": "045f1cf6", "Upub": "024289ef", "Vpub": "02575483",
}

P = 2**256 - 2**32 - 977
N = 0xFFFFFFFFFFFFFFFFFFFFFFFFFFFFFFFEBAAEDCE6AF48A03BBFD25E8CD0364141
GX = 0x79BE667EF9DCBBAC55A06295CE870B07029BFCDB2DCE28D959F2815B16F81798
GY = 0x483ADA7726A3C4655DA4FBFC0E1108A8FD17B448A68554199C47D08FFB10D4B8


def _add(a, b):
    if a is None:
        return b
    if b is None:
        return a
    if a[0] == b[0]:
        if (a[1] + b[1]) % P == 0:
            return None
        lam = 3 * a[0] * a[0] * pow(2 * a[1], -1, P) % P
    else:
        lam = (b[1] - a[1]) * pow(b[0] - a[0], -1, P) % P
    x = (lam * lam - a[0] - b[0]) % P
    return x, (lam * (a[0] - x) - a[1]) % P


def pubkey_sec(secret):
    """Compressed SEC encoding of secret*G."""
    acc, base, k = None, (GX, GY), secret % N
    while k:
        if k & 1:
            acc = _add(acc, base)
        base = _add(base, base)
        k >>= 1
    return bytes([2 + (acc[1] & 1)]) + acc[0].to_bytes(32, "big")


def xkey_payload(version_hex, depth, fingerprint, child, chain_code, key33):
    assert len(fingerprint) == 4 and len(chain_code) == 32 and len(key33) == 33
    return bytes.fromhex(version_hex) + bytes([depth]) + fingerprint + struct.pack(">I", child) + chain_code + key33


# ------------------------------------------------------------------ selftest
def selftest():
    # Base58: Bitcoin Core's base58_encode_decode.json
    vec = [
        ("", ""), ("61", "2g"), ("626262", "a3gV"), ("636363", "aPEr"),
        ("73696d706c792061206c6f6e6720737472696e67", "2cFupjhnEsSn59qHXstmK2ffpLv2"),
        ("00eb15231dfceb60925886b67d065299925915aeb172c06647", "1NS17iag9jJgTHD1VXjvLCEnZuQ3rJDE9L"),
        ("516b6fcd0f", "ABnLTmg"), ("bf4f89001e670274dd", "3SEo3LWLoPntC"), ("572e4794", "3EFU7m"),
        ("ecac89cad93923c02321", "EJDM8drfXA6uyA"), ("10c8511e", "Rt5zm"), ("00000000000000000000", "1111111111"),
    ]
    for h, s in vec:
        b = bytes.fromhex(h)
        assert b58encode(b) == s, (h, b58encode(b))
        assert b58decode(s) == b and b58decode_fast(s) == b, s
    for bad in ("0", "O", "I", "l", "a b", "3EFU7m!"):
        assert b58decode(bad) is None and b58decode_fast(bad) is None
    # the two decoders agree on a structured family incl. leading zeros
    for z in range(4):
        for n in range(0, 40):
            b = b"\x00" * z + hashlib.sha256(bytes([z, n])).digest()[: n % 33]
            assert b58decode(b58encode(b)) == b == b58decode_fast(b58encode(b))
    # Base58Check: well-known strings
    h160_g = bytes.fromhex("751e76e8199196d454941c45d1b3a323f1433bd6")  # HASH160 of the compressed generator
    assert b58check_encode(b"\x00" + h160_g) == "1BgGZ9tcN4rm9KBzDn7KprQz87SZ26SAMH"
    assert b58check_decode("1BgGZ9tcN4rm9KBzDn7KprQz87SZ26SAMH") == b"\x00" + h160_g
    assert b58check_decode("1BgGZ9tcN4rm9KBzDn7KprQz87SZ26SAMJ") is None
    assert b58check_decode("1111") is None and b58check_decode("") is None
    # WIF (Bitcoin wiki example and the secret-1 keys)
    assert wif_encode(0x0C28FCA386C7A227600B2FE50B7CAE11EC86D3BF1FBE471BE89827E19D72AA1D, False, "mainnet") == "5HueCGU8rMjxEXxiPuD5BDku4MkFqeZyd4dZ1jvhTVqvbTLvyTJ"
    assert wif_encode(1, True, "mainnet") == "KwDiBf89QgGbjEhKnhXJuH7LrciVrZi3qYjgd9M7rFU73sVHnoWn"
    assert wif_encode(1, False, "mainnet") == "5HpHagT65TZzG1PH3CSu63k8DbpvD8s5ip4nEB3kEsreAnchuDf"
    assert wif_decode("KwDiBf89QgGbjEhKnhXJuH7LrciVrZi3qYjgd9M7rFU73sVHnoWn") == (1, True, True)
    assert wif_encode(1, True, "testnet") == "cMahea7zqjxrtgAbB7LSGbcQUr1uX1ojuat9jZodMN87JcbXMTcA"
    # BIP32 test vector 1, master key: payload layout + Base58Check
    cc = bytes.fromhex("873dff81c02f525623fd1fe5167eac3a55a049de3d314bb42ee227ffed37d508")
    sk = bytes.fromhex("e8f32e723decf4051aefac8e2c93c9c5b214313817cdb01a1494b917c8436b35")
    assert b58check_encode(xkey_payload(XPRV_VERSIONS["xprv"], 0, b"\x00" * 4, 0, cc, b"\x00" + sk)) == (
        "xprv9s21ZrQH143K3QTDL4LXw2F7HEK3wJUD2nW2nRk4stbPy6cq3jPPqjiChkVvvNKmPGJxWUtg6LnF5kejMRNNU3TGtRBeJgk33yuGBxrMPHi"
    )
    assert b58check_encode(xkey_payload(XPUB_VERSIONS["xpub"], 0, b"\x00" * 4, 0, cc, pubkey_sec(int.from_bytes(sk, "big")))) == (
        "xpub661MyMwAqRbcFtXgS5sYJABqqG9YLmC4Q1Rdap9gSE8NqtwybGhePY2gZ29ESFjqJoCu1Rupje8YtGqsefD265TMg7usUDFdp6W1EGMcet8"
    )
    assert pubkey_sec(1).hex() == "0279be667ef9dcbbac55a06295ce870b07029bfcdb2dce28d959f2815b16f81798"
    assert pubkey_sec(N - 1).hex() == "0379be667ef9dcbbac55a06295ce870b07029bfcdb2dce28d959f2815b16f81798"
    # BIP173 / BIP350 valid checksums
    for s in ("A12UEL5L", "a12uel5l", "an83characterlonghumanreadablepartthatcontainsthenumber1andtheexcludedcharactersbio1tt5tgs",
              "abcdef1qpzry9x8gf2tvdw0s3jn54khce6mua7lmqqqxw", "split1checkupstagehandshakeupstreamerranterredcaperred2y9e3w",
              "11qqqqqqqqqqqqqqqqqqqqqqqqqqqqqqqqqqqqqqqqqqqqqqqqqqqqqqqqqqqqqqqqqqqqqqqqqqqqqqqqqqc8247j"):
        assert bech_decode(s)[2] == BECH32_CONST, s
    for s in ("A1LQFN3A", "a1lqfn3a", "an83characterlonghumanreadablepartthatcontainsthetheexcludedcharactersbioandnumber11sg7hg6",
              "abcdef1l7aum6echk45nj3s0wdvt2fg8x9yrzpqzd3ryx", "split1checkupstagehandshakeupstreamerranterredcaperredlc445v", "?1v759aa"):
        assert bech_decode(s)[2] == BECH32M_CONST, s
    # BIP173 / BIP350 valid segwit addresses -> scriptPubKey
    valid = [
        ("bc", "BC1QW508D6QEJXTDG4Y5R3ZARVARY0C5XW7KV8F3T4", "0014751e76e8199196d454941c45d1b3a323f1433bd6"),
        ("tb", "tb1qrp33g0q5c5txsp9arysrx4k6zdkfs4nce4xj0gdcccefvpysxf3q0sl5k7", "00201863143c14c5166804bd19203356da136c985678cd4d27a1b8c6329604903262"),
        ("bc", "bc1pw508d6qejxtdg4y5r3zarvary0c5xw7kw508d6qejxtdg4y5r3zarvary0c5xw7kt5nd6y", "5128751e76e8199196d454941c45d1b3a323f1433bd6751e76e8199196d454941c45d1b3a323f1433bd6"),
        ("bc", "BC1SW50QGDZ25J", "6002751e"),
        ("bc", "bc1zw508d6qejxtdg4y5r3zarvaryvaxxpcs", "5210751e76e8199196d454941c45d1b3a323"),
        ("tb", "tb1qqqqqp399et2xygdj5xreqhjjvcmzhxw4aywxecjdzew6hylgvsesrxh6hy", "0020000000c4a5cad46221b2a187905e5266362b99d5e91c6ce24d165dab93e86433"),
        ("tb", "tb1pqqqqp399et2xygdj5xreqhjjvcmzhxw4aywxecjdzew6hylgvsesf3hn0c", "5120000000c4a5cad46221b2a187905e5266362b99d5e91c6ce24d165dab93e86433"),
        ("bc", "bc1p0xlxvlhemja6c4dqv22uapctqupfhlxm9h8z3k2e72q4k9hcz7vqzk5jj0", "512079be667ef9dcbbac55a06295ce870b07029bfcdb2dce28d959f2815b16f81798"),
        # regtest strings published in the repository's test data (used as data only)
        ("bcrt", "bcrt1qqqqqqqqqqqqqqqqqqqqqqqqqqqqqqqqqdku202", "00140000000000000000000000000000000000000000"),
        ("bcrt", "bcrt1p0xlxvlhemja6c4dqv22uapctqupfhlxm9h8z3k2e72q4k9hcz7vqc8gma6", "512079be667ef9dcbbac55a06295ce870b07029bfcdb2dce28d959f2815b16f81798"),
        ("bcrt", "bcrt1qrp33g0q5c5txsp9arysrx4k6zdkfs4nce4xj0gdcccefvpysxf3qzf4jry", "00201863143c14c5166804bd19203356da136c985678cd4d27a1b8c6329604903262"),
    ]
    for hrp, a, spk in valid:
        ver, prog = segwit_decode(hrp, a)
        assert witness_script_pubkey(ver, prog).hex() == spk, a
        assert segwit_encode(hrp, ver, prog) == a.lower(), a
        other = "tb" if hrp != "tb" else "bc"
        assert not segwit_valid(other, a)
    # BIP173 / BIP350 invalid segwit addresses with the reason the BIPs give
    invalid = [
        ("tc1p0xlxvlhemja6c4dqv22uapctqupfhlxm9h8z3k2e72q4k9hcz7vq5zuyut", "hrp"),
        ("bc1p0xlxvlhemja6c4dqv22uapctqupfhlxm9h8z3k2e72q4k9hcz7vqh2y7hd", "wrong-constant"),
        ("tb1z0xlxvlhemja6c4dqv22uapctqupfhlxm9h8z3k2e72q4k9hcz7vqglt7rf", "wrong-constant"),
        ("BC1S0XLXVLHEMJA6C4DQV22UAPCTQUPFHLXM9H8Z3K2E72Q4K9HCZ7VQ54WELL", "wrong-constant"),
        ("bc1qw508d6qejxtdg4y5r3zarvary0c5xw7kemeawh", "wrong-constant"),
        ("tb1q0xlxvlhemja6c4dqv22uapctqupfhlxm9h8z3k2e72q4k9hcz7vq24jc47", "wrong-constant"),
        ("bc1p38j9r5y49hruaue7wxjce0updqjuyyx0kh56v8s25huc6995vvpql3jow4", "bad-char"),
        ("BC130XLXVLHEMJA6C4DQV22UAPCTQUPFHLXM9H8Z3K2E72Q4K9HCZ7VQ7ZWS8R", "version"),
        ("bc1pw5dgrnzv", "program-length"),
        ("bc1p0xlxvlhemja6c4dqv22uapctqupfhlxm9h8z3k2e72q4k9hcz7v8n0nx0muaewav253zgeav", "program-length"),
        ("BC1QR508D6QEJXTDG4Y5R3ZARVARYV98GJ9P", "v0-length"),
        ("tb1p0xlxvlhemja6c4dqv22uapctqupfhlxm9h8z3k2e72q4k9hcz7vq47Zagq", "mixed-case"),
        ("bc1p0xlxvlhemja6c4dqv22uapctqupfhlxm9h8z3k2e72q4k9hcz7v07qwwzcrf", "padding"),
        ("tb1p0xlxvlhemja6c4dqv22uapctqupfhlxm9h8z3k2e72q4k9hcz7vpggkg4j", "padding"),
        ("bc1gmk9yu", "empty-data"),
        # BIP173 list
        ("tc1qw508d6qejxtdg4y5r3zarvary0c5xw7kg3g4ty", "hrp"),
        ("bc1qw508d6qejxtdg4y5r3zarvary0c5xw7kv8f3t5", "checksum"),
        ("BC13W508D6QEJXTDG4Y5R3ZARVARY0C5XW7KN40WF2", "version"),
        ("bc1rw5uspcuh", "program-length"),
        ("bc10w508d6qejxtdg4y5r3zarvary0c5xw7kw508d6qejxtdg4y5r3zarvary0c5xw7kw5rljs90", "program-length"),
        ("tb1qrp33g0q5c5txsp9arysrx4k6zdkfs4nce4xj0gdcccefvpysxf3q0sL5k7", "mixed-case"),
        ("bc1zw508d6qejxtdg4y5r3zarvaryvqyzf3du", "padding"),
        ("tb1qrp33g0q5c5txsp9arysrx4k6zdkfs4nce4xj0gdcccefvpysxf3pjxtptv", "padding"),
    ]
    for a, why in invalid:
        for hrp in ("bc", "tb"):
            try:
                segwit_decode(hrp, a)
                raise AssertionError(("accepted", a))
            except Invalid as e:
                if hrp == a[:2].lower() or why in ("mixed-case", "bad-char"):
                    assert str(e) == why, (a, why, str(e))
    # regroup is an exact inverse pair on every length 0..40
    for n in range(41):
        b = hashlib.sha512(bytes([n])).digest()[:n]
        g = regroup(b, 8, 5, True)
        assert len(g) == (8 * n + 4) // 5 and bytes(regroup(g, 5, 8, False)) == b
    # affine structure used by the syndrome tables: polymod(v ^ e) == polymod(v) ^ T-sum
    for hrp, a, _ in valid[1:3] + valid[8:9]:
        a = a.lower()
        data = [CHARSET_INDEX[c] for c in a[len(hrp) + 1 :]]
        T = syndrome_table(hrp, len(data))
        base = polymod(hrp_expand(hrp) + data)
        for i in range(0, len(data), 3):
            for j in range(i + 1, len(data), 5):
                for d1, d2 in ((1, 31), (7, 7), (16, 9)):
                    m = list(data)
                    m[i] ^= d1
                    m[j] ^= d2
                    assert polymod(hrp_expand(hrp) + m) == base ^ T[i][d1] ^ T[j][d2]
    # templates
    assert address("p2wpkh", h160_g, "mainnet") == "bc1qw508d6qejxtdg4y5r3zarvary0c5xw7kv8f3t4"
    assert address("p2pkh", h160_g, "mainnet") == "1BgGZ9tcN4rm9KBzDn7KprQz87SZ26SAMH"
    assert address("p2pkh", h160_g, "testnet") == "mrCDrCybB6J1vRfbwM5hemdJz73FwDBC8r"
    assert address_decode("bc1qw508d6qejxtdg4y5r3zarvary0c5xw7kv8f3t4", "mainnet") == ("p2wpkh", h160_g)
    assert address_decode("bc1qw508d6qejxtdg4y5r3zarvary0c5xw7kv8f3t4", "testnet") is None
    assert address_decode("3P14159f73E4gFr7JterCCQh9QjiTjiZrG", "mainnet")[0] == "p2sh"
    return True


if __name__ == "__main__":
    selftest()
    print("addrref selftest ok")
