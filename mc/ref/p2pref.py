"""Reference Bitcoin P2P framing and message byte layouts.

Written from the protocol documentation (developer reference "P2P Network", BIP37/BIP157/BIP158
message tables); shares no code with buidl.  Everything is plain `struct` / integer shifting.

Conventions used by the checks:
* block / tx hashes are passed in *display* order (as shown by explorers) and go on the wire
  reversed ("internal byte order");
* filter hashes / filter headers of BIP157 are passed and written raw;
* `nonce` of version/ping/pong is the raw 8-byte wire field.
"""
import hashlib
import struct


def dsha(b):
    return hashlib.sha256(hashlib.sha256(b).digest()).digest()


class Reject(Exception):
    pass


# ------------------------------------------------------------------ integers
def le(n, width):
    """width-byte little-endian encoding of an unsigned integer (by shifting, no to_bytes)."""
    if not isinstance(n, int) or isinstance(n, bool) or n < 0 or n >> (8 * width):
        raise Reject("out of range")
    return bytes((n >> (8 * i)) & 0xFF for i in range(width))


def be(n, width):
    return le(n, width)[::-1]


def from_le(b):
    v = 0
    for i, x in enumerate(b):
        v |= x << (8 * i)
    return v


def from_be(b):
    v = 0
    for x in b:
        v = (v << 8) | x
    return v


def compact(n):
    """CompactSize unsigned integer."""
    if not isinstance(n, int) or isinstance(n, bool) or n < 0 or n > 0xFFFFFFFFFFFFFFFF:
        raise Reject("compact size out of range")
    if n <= 0xFC:
        return struct.pack("<B", n)
    if n <= 0xFFFF:
        return b"\xfd" + struct.pack("<H", n)
    if n <= 0xFFFFFFFF:
        return b"\xfe" + struct.pack("<I", n)
    return b"\xff" + struct.pack("<Q", n)


def read_compact(buf, pos=0):
    """Layout decoder (accepts non-minimal encodings, as the wire layout defines a value for them).
    Returns (value, new_pos, canonical?).  Raises Reject on truncation."""
    if pos >= len(buf):
        raise Reject("empty")
    b = buf[pos]
    if b < 0xFD:
        return b, pos + 1, True
    w = {0xFD: 2, 0xFE: 4, 0xFF: 8}[b]
    body = buf[pos + 1 : pos + 1 + w]
    if len(body) != w:
        raise Reject("truncated compact size")
    v = struct.unpack({2: "<H", 4: "<I", 8: "<Q"}[w], body)[0]
    return v, pos + 1 + w, compact(v) == buf[pos : pos + 1 + w]


def varstr(b):
    return compact(len(b)) + b


def read_varstr(buf, pos=0):
    n, pos, _ = read_compact(buf, pos)
    s = buf[pos : pos + n]
    if len(s) != n:
        raise Reject("truncated var string")
    return s, pos + n


# ------------------------------------------------------------------ envelope
MAGIC = {  # pchMessageStart of each chain, as sent on the wire
    "mainnet": bytes([0xF9, 0xBE, 0xB4, 0xD9]),
    "testnet": bytes([0x0B, 0x11, 0x09, 0x07]),
    "signet": bytes([0x0A, 0x03, 0xCF, 0x40]),
    "regtest": bytes([0xFA, 0xBF, 0xB5, 0xDA]),
}
HEADER_LEN = 24


def envelope(network, command, payload):
    """magic(4) | command NUL-padded to 12 | length uint32 LE | first 4 bytes of SHA256d(payload) | payload"""
    if len(command) > 12 or b"\x00" in command:
        raise Reject("command not encodable")
    if len(payload) > 0xFFFFFFFF:
        raise Reject("payload too long")
    return MAGIC[network] + command + b"\x00" * (12 - len(command)) + struct.pack("<I", len(payload)) + dsha(payload)[:4] + payload


def command_of_field(field):
    """12-byte command field -> (command, canonical?)  canonical = ASCII string then only NULs."""
    cmd = field.rstrip(b"\x00")
    return cmd, b"\x00" not in cmd


def parse_envelope(network, raw, pos=0):
    """Strict receiver: returns (command_field(12 bytes), payload, new_pos) or raises Reject."""
    head = raw[pos : pos + HEADER_LEN]
    if len(head) != HEADER_LEN:
        raise Reject("truncated header")
    if head[:4] != MAGIC[network]:
        raise Reject("wrong magic")
    (length,) = struct.unpack("<I", head[16:20])
    payload = raw[pos + HEADER_LEN : pos + HEADER_LEN + length]
    if len(payload) != length:
        raise Reject("fewer payload bytes than declared")
    if dsha(payload)[:4] != head[20:24]:
        raise Reject("wrong checksum")
    return head[4:16], payload, pos + HEADER_LEN + length


# ------------------------------------------------------------------ block header
def header(h):
    """h: dict version, prev (display order), merkle (display order), time, bits (4 wire bytes), nonce (4 wire bytes)"""
    if len(h["prev"]) != 32 or len(h["merkle"]) != 32 or len(h["bits"]) != 4 or len(h["nonce"]) != 4:
        raise Reject("field width")
    return struct.pack("<I", h["version"]) + h["prev"][::-1] + h["merkle"][::-1] + struct.pack("<I", h["time"]) + h["bits"] + h["nonce"]


def parse_header(raw, pos=0):
    b = raw[pos : pos + 80]
    if len(b) != 80:
        raise Reject("truncated header")
    return (
        {
            "version": struct.unpack("<I", b[0:4])[0],
            "prev": b[4:36][::-1],
            "merkle": b[36:68][::-1],
            "time": struct.unpack("<I", b[68:72])[0],
            "bits": b[72:76],
            "nonce": b[76:80],
        },
        pos + 80,
    )


def header_hash(h):
    """display order"""
    return dsha(header(h))[::-1]


# ------------------------------------------------------------------ messages
def net_addr(services, ip4, port):
    """network address without the time field: services uint64 LE | IPv4-mapped IPv6 (16) | port uint16 BIG endian"""
    if len(ip4) != 4:
        raise Reject("ipv4 only")
    return struct.pack("<Q", services) + b"\x00" * 10 + b"\xff\xff" + ip4 + struct.pack(">H", port)


def version_msg(f):
    """f: version(int32) services(uint64) timestamp(int64) recv_services recv_ip recv_port
    send_services send_ip send_port nonce(8 raw bytes) user_agent(bytes) start_height(int32) relay(bool)"""
    if len(f["nonce"]) != 8:
        raise Reject("nonce width")
    return (
        struct.pack("<i", f["version"])
        + struct.pack("<Q", f["services"])
        + struct.pack("<q", f["timestamp"])
        + net_addr(f["recv_services"], f["recv_ip"], f["recv_port"])
        + net_addr(f["send_services"], f["send_ip"], f["send_port"])
        + f["nonce"]
        + varstr(f["user_agent"])
        + struct.pack("<i", f["start_height"])
        + (b"\x01" if f["relay"] else b"\x00")
    )


def parse_version_msg(raw):
    pos = 0
    out = {}
    out["version"], out["services"], out["timestamp"] = struct.unpack_from("<iQq", raw, 0)
    pos = 20
    for who in ("recv", "send"):
        (out[who + "_services"],) = struct.unpack_from("<Q", raw, pos)
        ip = raw[pos + 8 : pos + 24]
        if ip[:12] != b"\x00" * 10 + b"\xff\xff":
            raise Reject("not ipv4-mapped")
        out[who + "_ip"] = ip[12:]
        (out[who + "_port"],) = struct.unpack_from(">H", raw, pos + 24)
        pos += 26
    out["nonce"] = raw[pos : pos + 8]
    pos += 8
    out["user_agent"], pos = read_varstr(raw, pos)
    (out["start_height"],) = struct.unpack_from("<i", raw, pos)
    pos += 4
    out["relay"] = raw[pos] != 0
    pos += 1
    if pos != len(raw):
        raise Reject("trailing")
    return out


def getheaders_msg(version, count_field, locator, stop):
    """version uint32 | hash count compact | locator hashes (internal order) | stop hash (internal order).
    count_field is written as given (the API under test lets the caller choose it independently)."""
    return struct.pack("<I", version) + compact(count_field) + b"".join(h[::-1] for h in locator) + stop[::-1]


def headers_msg(headers, txcounts=None):
    """count compact | (80-byte header | tx count compact, always 0)*"""
    if txcounts is None:
        txcounts = [0] * len(headers)
    return compact(len(headers)) + b"".join(header(h) + compact(t) for h, t in zip(headers, txcounts))


def inv_msg(items):
    """getdata / inv: count compact | (type uint32 LE | hash internal order)*  ; items: (type, display-order hash)"""
    return compact(len(items)) + b"".join(struct.pack("<I", t) + h[::-1] for t, h in items)


def parse_inv_msg(raw):
    n, pos, _ = read_compact(raw, 0)
    out = []
    for _ in range(n):
        (t,) = struct.unpack_from("<I", raw, pos)
        out.append((t, raw[pos + 4 : pos + 36][::-1]))
        pos += 36
    if pos != len(raw):
        raise Reject("length")
    return out


def getcfilters_msg(filter_type, start_height, stop_hash):
    """BIP157: FilterType uint8 | StartHeight uint32 LE | StopHash (internal order)"""
    return struct.pack("<BI", filter_type, start_height) + stop_hash[::-1]


getcfheaders_msg = getcfilters_msg


def getcfcheckpt_msg(filter_type, stop_hash):
    return struct.pack("<B", filter_type) + stop_hash[::-1]


def cfilter_msg(filter_type, block_hash, filter_bytes):
    """FilterType uint8 | BlockHash (internal order) | NumFilterBytes compact | FilterBytes"""
    return struct.pack("<B", filter_type) + block_hash[::-1] + varstr(filter_bytes)


def cfheaders_msg(filter_type, stop_hash, prev_filter_header, filter_hashes):
    """FilterType | StopHash (internal order) | PreviousFilterHeader raw 32 | count compact | FilterHashes raw 32 each"""
    if len(prev_filter_header) != 32 or any(len(h) != 32 for h in filter_hashes):
        raise Reject("width")
    return struct.pack("<B", filter_type) + stop_hash[::-1] + prev_filter_header + compact(len(filter_hashes)) + b"".join(filter_hashes)


def cfcheckpt_msg(filter_type, stop_hash, filter_headers):
    if any(len(h) != 32 for h in filter_headers):
        raise Reject("width")
    return struct.pack("<B", filter_type) + stop_hash[::-1] + compact(len(filter_headers)) + b"".join(filter_headers)


def filter_header_chain(prev_filter_header, filter_hashes):
    """BIP157: header_i = SHA256d(filter_hash_i || header_{i-1})"""
    cur = prev_filter_header
    for fh in filter_hashes:
        cur = dsha(fh + cur)
    return cur


# ------------------------------------------------------------------ minimal BIP158 set writer (to build *valid* filter bytes)
def gcs_bytes(values, p=19):
    """values: sorted list of ints.  N compact | Golomb-Rice(P) coded deltas, MSB first, zero padded."""
    acc = 0
    nbits = 0
    last = 0
    for v in values:
        d = v - last
        last = v
        q, r = d >> p, d & ((1 << p) - 1)
        acc = (acc << (q + 1)) | (((1 << q) - 1) << 1)  # q ones then a zero
        acc = (acc << p) | r
        nbits += q + 1 + p
    pad = -nbits % 8
    acc <<= pad
    nbits += pad
    return compact(len(values)) + (acc.to_bytes(nbits // 8, "big") if nbits else b"")


def gcs_of_length(total_len, p=19):
    """A valid filter (count + coded set) whose serialisation is exactly total_len bytes, or None.
    Items have delta 1 (20 bits each); the last item gets the unary slack needed to hit the length."""
    if total_len < 1:
        return None
    if total_len == 1:
        return b"\x00", []
    for k in range(max(1, (total_len - 9) * 8 // (p + 1) - 2), total_len * 8 // (p + 1) + 2):
        body = total_len - len(compact(k))
        need_bits = body * 8 - k * (p + 1)
        if body <= 0 or need_bits < 0:
            continue
        # spend the slack as unary quotient of the last item; up to 7 bits may be left as padding
        q = max(0, need_bits - 7)
        if need_bits - q > 7:
            continue
        vals = list(range(1, k))
        lastv = (vals[-1] if vals else 0) + (q << p) + 1
        vals.append(lastv)
        out = gcs_bytes(vals, p)
        if len(out) == total_len:
            return out, vals
    return None


# ------------------------------------------------------------------ self test
def selftest():
    # integers
    for w, fmt in ((1, "B"), (2, "H"), (4, "I"), (8, "Q")):
        for n in (0, 1, 0x7F, 0x80, (1 << (8 * w)) - 1, (1 << (8 * w - 1)), 0x0102030405060708 & ((1 << (8 * w)) - 1)):
            assert le(n, w) == struct.pack("<" + fmt, n) and be(n, w) == struct.pack(">" + fmt, n)
            assert from_le(le(n, w)) == n and from_be(be(n, w)) == n
        for bad in (-1, 1 << (8 * w)):
            try:
                le(bad, w)
                assert False
            except Reject:
                pass
    # compact size: documented examples
    assert compact(0) == b"\x00" and compact(252) == b"\xfc" and compact(253) == b"\xfd\xfd\x00"
    assert compact(515) == b"\xfd\x03\x02" and compact(0xFFFF) == b"\xfd\xff\xff" and compact(0x10000) == b"\xfe\x00\x00\x01\x00"
    assert compact(0xFFFFFFFF) == b"\xfe\xff\xff\xff\xff" and compact(0x100000000) == b"\xff\x00\x00\x00\x00\x01\x00\x00\x00"
    assert compact(2**64 - 1) == b"\xff" + b"\xff" * 8
    for n in (0, 1, 252, 253, 254, 65535, 65536, 2**32 - 1, 2**32, 2**64 - 1):
        v, pos, canon = read_compact(compact(n) + b"zz")
        assert (v, pos, canon) == (n, len(compact(n)), True)
    assert read_compact(b"\xfd\x01\x00") == (1, 3, False)
    # envelopes captured on mainnet (data published in the repository's test file and in the protocol docs)
    verack = bytes.fromhex("f9beb4d976657261636b000000000000000000005df6e0e2")
    assert envelope("mainnet", b"verack", b"") == verack
    assert parse_envelope("mainnet", verack) == (b"verack" + b"\x00" * 6, b"", 24)
    cap = bytes.fromhex(
        "f9beb4d976657273696f6e0000000000650000005f1a69d2721101000100000000000000bc8f5e5400000000010000000000000000000000000000000000ffff"
        "c61b6409208d010000000000000000000000000000000000ffffcb0071c0208d128035cbc97953f80f2f5361746f7368693a302e392e332fcf05050001"
    )
    field, payload, pos = parse_envelope("mainnet", cap)
    assert command_of_field(field) == (b"version", True) and pos == len(cap) and len(payload) == 0x65
    assert envelope("mainnet", b"version", payload) == cap
    v = parse_version_msg(payload)
    assert v["version"] == 70002 and v["services"] == 1 and v["timestamp"] == 1415483324
    assert v["recv_port"] == 8333 and v["send_port"] == 8333  # wire bytes 20 8d: big endian
    assert v["recv_ip"] == bytes([198, 27, 100, 9]) and v["send_ip"] == bytes([203, 0, 113, 192])
    assert v["user_agent"] == b"/Satoshi:0.9.3/" and v["start_height"] == 329167 and v["relay"] is True
    assert version_msg(v) == payload
    for bad in (cap[:-1], cap[:10], b"\x00" + cap[1:], cap[:20] + b"\x00" + cap[21:], cap[:-1] + b"\x00"):
        try:
            parse_envelope("mainnet", bad)
            assert False
        except Reject:
            pass
    for net in ("testnet", "signet", "regtest"):
        try:
            parse_envelope(net, cap)
            assert False
        except Reject:
            pass
    # genesis block header -> well known hash
    gen = {
        "version": 1,
        "prev": b"\x00" * 32,
        "merkle": bytes.fromhex("4a5e1e4baab89f3a32518a88c31bc87f618f76673e2cc77ab2127b7afdeda33b"),
        "time": 1231006505,
        "bits": bytes.fromhex("ffff001d"),
        "nonce": struct.pack("<I", 2083236893),
    }
    assert header_hash(gen).hex() == "000000000019d6689c085ae165831e934ff763ae46a2a6c172b3f1b60a8ce26f"
    assert parse_header(header(gen)) == (gen, 80)
    # captured headers message: second header must link to the hash of the first
    hm = bytes.fromhex(
        "0200000020df3b053dc46f162a9b00c7f0d5124e2676d47bbe7c5d0793a500000000000000ef445fef2ed495c275892206ca533e7411907971013ab83e3b47bd0d"
        "692d14d4dc7c835b67d8001ac157e670000000002030eb2540c41025690160a1014c577061596e32e426b712c7ca00000000000000768b89f07044e6130ead292a"
        "3f51951adbd2202df447d98789339937fd006bd44880835b67d8001ade09204600"
    )
    n, pos, _ = read_compact(hm, 0)
    h1, pos = parse_header(hm, pos)
    z1, pos, _ = read_compact(hm, pos)
    h2, pos = parse_header(hm, pos)
    z2, pos, _ = read_compact(hm, pos)
    assert (n, z1, z2, pos) == (2, 0, 0, len(hm)) and h2["prev"] == header_hash(h1)
    assert headers_msg([h1, h2]) == hm
    # getheaders / getdata examples
    gh = "7f11010001a35bd0ca2f4a88c4eda6d213e2378a5758dfcd6af43712000000000000000000" + "00" * 32
    assert getheaders_msg(70015, 1, [bytes.fromhex("0000000000000000001237f46acddf58578a37e213d2a6edc4884a2fcad05ba3")], b"\x00" * 32).hex() == gh
    gd = (
        "020300000030eb2540c41025690160a1014c577061596e32e426b712c7ca00000000000000030000001049847939585b0652fba793661c361223446b6fc41089b8be"
        "00000000000000"
    )
    items = [
        (3, bytes.fromhex("00000000000000cac712b726e4326e596170574c01a16001692510c44025eb30")),
        (3, bytes.fromhex("00000000000000beb88910c46f6b442312361c6693a7fb52065b583979844910")),
    ]
    assert inv_msg(items).hex() == gd and parse_inv_msg(bytes.fromhex(gd)) == items
    # BIP157 layouts
    stop = bytes.fromhex("000000006f27ddfe1dd680044a34548f41bed47eba9e6f0b310da21423bc5f33")
    assert getcfilters_msg(0, 1, stop) == b"\x00\x01\x00\x00\x00" + stop[::-1]
    assert getcfcheckpt_msg(0, stop) == b"\x00" + stop[::-1]
    z = b"\x00" * 32
    assert cfheaders_msg(0, stop, z, [z]).hex() == "00" + stop[::-1].hex() + "00" * 32 + "01" + "00" * 32
    assert cfcheckpt_msg(0, stop, [z]).hex() == "00" + stop[::-1].hex() + "01" + "00" * 32
    # BIP158: testnet block filter bytes from the repository's test data, decoded set {570774, 1341840, 1483084}
    assert gcs_bytes([570774, 1341840, 1483084]).hex() == "0385acb4f0fe889ef0"
    assert cfilter_msg(0, stop, bytes.fromhex("0385acb4f0fe889ef0")) == b"\x00" + stop[::-1] + b"\x09" + bytes.fromhex("0385acb4f0fe889ef0")
    for L in (1, 4, 5, 100, 252, 253, 254, 255, 256, 257, 1000):
        r = gcs_of_length(L)
        assert r is not None and len(r[0]) == L, L
    # filter header chain: BIP158 testnet test vectors (published; blocks 0, 2, 3), headers shown reversed
    fh0 = dsha(bytes.fromhex("019dfca8"))
    assert filter_header_chain(z, [fh0])[::-1].hex() == "21584579b7eb08997773e5aeff3a7f932700042d0ed2a6129012b7d7ae81b750"
    prev2 = bytes.fromhex("d7bdac13a59d745b1add0d2ce852f1a0442e8945fc1bf3848d3cbffd88c24fe1")[::-1]
    chain = filter_header_chain(prev2, [dsha(bytes.fromhex("0174a170")), dsha(bytes.fromhex("016cf7a0"))])
    assert chain[::-1].hex() == "8d63aadf5ab7257cb6d2316a57b16f517bff1c6388f124ec4c04af1212729d2a"
    return True


if __name__ == "__main__":
    selftest()
    print("p2pref selftest ok")
