"""Reference elliptic-curve arithmetic for y^2 = x^3 + 7 over F_p (secp256k1 and toy curves),
ECDSA + RFC 6979 + strict DER, BIP340 Schnorr.  Written from SEC1 / RFC 6979 / BIP340.
No code shared with buidl.  Points are None (infinity) or (x, y) integer tuples.
"""
import hashlib
import hmac


class Curve:
    def __init__(self, p, n, g, name="", a=0, b=7):
        """y^2 = x^3 + a*x + b over F_p; a, b default to the secp256k1 shape (0, 7).  The Jacobian
        formulas below assume a == 0; for a != 0 mul() falls back to the affine law."""
        self.p, self.n, self.g, self.name = p, n, g, name
        self.a, self.b = a, b
        self.nlen = n.bit_length()

    # --- affine group law (the specification) -------------------------------------
    def on_curve(self, P):
        if P is None:
            return True
        x, y = P
        return 0 <= x < self.p and 0 <= y < self.p and (y * y - x * x * x - self.a * x - self.b) % self.p == 0

    def neg(self, P):
        if P is None:
            return None
        return (P[0], (-P[1]) % self.p)

    def add(self, P, Q):
        p = self.p
        if P is None:
            return Q
        if Q is None:
            return P
        x1, y1 = P
        x2, y2 = Q
        if x1 == x2:
            if (y1 + y2) % p == 0:
                return None
            lam = (3 * x1 * x1 + self.a) * pow(2 * y1, -1, p) % p
        else:
            lam = (y2 - y1) * pow(x2 - x1, -1, p) % p
        x3 = (lam * lam - x1 - x2) % p
        return (x3, (lam * (x1 - x3) - y1) % p)

    def mul_affine(self, k, P):
        """Plain double-and-add on the integer k (k may be any integer; negative = negate)."""
        if k < 0:
            return self.mul_affine(-k, self.neg(P))
        R = None
        Q = P
        while k:
            if k & 1:
                R = self.add(R, Q)
            Q = self.add(Q, Q)
            k >>= 1
        return R

    # --- Jacobian (independent second implementation, used for speed) --------------
    def _jdbl(self, P):
        p = self.p
        X, Y, Z = P
        if Y == 0 or Z == 0:
            return (0, 1, 0)
        S = 4 * X * Y * Y % p
        M = 3 * X * X % p
        X3 = (M * M - 2 * S) % p
        Y3 = (M * (S - X3) - 8 * Y * Y * Y * Y) % p
        Z3 = 2 * Y * Z % p
        return (X3, Y3, Z3)

    def _jadd(self, P, Q):
        p = self.p
        if P[2] == 0:
            return Q
        if Q[2] == 0:
            return P
        X1, Y1, Z1 = P
        X2, Y2, Z2 = Q
        Z1Z1 = Z1 * Z1 % p
        Z2Z2 = Z2 * Z2 % p
        U1 = X1 * Z2Z2 % p
        U2 = X2 * Z1Z1 % p
        S1 = Y1 * Z2 * Z2Z2 % p
        S2 = Y2 * Z1 * Z1Z1 % p
        if U1 == U2:
            if S1 != S2:
                return (0, 1, 0)
            return self._jdbl(P)
        Hh = (U2 - U1) % p
        R = (S2 - S1) % p
        H2 = Hh * Hh % p
        H3 = Hh * H2 % p
        U1H2 = U1 * H2 % p
        X3 = (R * R - H3 - 2 * U1H2) % p
        Y3 = (R * (U1H2 - X3) - S1 * H3) % p
        Z3 = Hh * Z1 * Z2 % p
        return (X3, Y3, Z3)

    def _from_j(self, P):
        if P[2] == 0:
            return None
        zi = pow(P[2], -1, self.p)
        return (P[0] * zi * zi % self.p, P[1] * zi * zi * zi % self.p)

    def mul(self, k, P):
        if P is None:
            return None
        k %= self.n
        if k == 0:
            return None
        if self.a:
            return self.mul_affine(k, P)
        R = (0, 1, 0)
        Q = (P[0], P[1], 1)
        for bit in bin(k)[2:]:
            R = self._jdbl(R)
            if bit == "1":
                R = self._jadd(R, Q)
        return self._from_j(R)

    def mulg(self, k):
        return self.mul(k, self.g)

    def lin(self, a, P, b, Q):
        return self.add(self.mul(a, P), self.mul(b, Q))

    # --- encodings ----------------------------------------------------------------
    def sqrt(self, a):
        """p % 4 == 3 for every curve used here."""
        r = pow(a, (self.p + 1) // 4, self.p)
        return r if r * r % self.p == a % self.p else None

    def lift_x(self, x, odd=False):
        if not (0 <= x < self.p):
            return None
        y = self.sqrt((x * x * x + self.a * x + self.b) % self.p)
        if y is None:
            return None
        if (y & 1) != (1 if odd else 0):
            y = self.p - y
        return (x, y)

    def sec(self, P, compressed=True):
        x, y = P
        if compressed:
            return bytes([2 + (y & 1)]) + x.to_bytes(32, "big")
        return b"\x04" + x.to_bytes(32, "big") + y.to_bytes(32, "big")

    def parse_sec(self, b):
        """SEC1 2.3.4 restricted to compressed (33 bytes, 02/03) and uncompressed (65 bytes, 04).
        Returns a point or None when the bytes do not encode a curve point."""
        if len(b) == 33 and b[0] in (2, 3):
            return self.lift_x(int.from_bytes(b[1:], "big"), odd=(b[0] == 3))
        if len(b) == 65 and b[0] == 4:
            x = int.from_bytes(b[1:33], "big")
            y = int.from_bytes(b[33:], "big")
            P = (x, y)
            if x < self.p and y < self.p and self.on_curve(P):
                return P
        return None

    def has_even_y(self, P):
        return P[1] % 2 == 0

    # --- ECDSA -----------------------------------------------------------------------
    def ecdsa_sign_k(self, d, z, k):
        """Returns (r, s) with low s, or None when r == 0 or s == 0 (nonce must be redrawn)."""
        n = self.n
        R = self.mulg(k)
        if R is None:
            return None
        r = R[0] % n
        if r == 0:
            return None
        s = pow(k, -1, n) * (z + r * d) % n
        if s == 0:
            return None
        if s > n // 2:
            s = n - s
        return (r, s)

    def ecdsa_verify(self, Q, z, r, s):
        n = self.n
        if not (isinstance(r, int) and isinstance(s, int)):
            return False
        if not (1 <= r <= n - 1 and 1 <= s <= n - 1):
            return False
        if Q is None or not self.on_curve(Q):
            return False
        w = pow(s, -1, n)
        X = self.lin(z * w % n, self.g, r * w % n, Q)
        if X is None:
            return False
        return X[0] % n == r

    def rfc6979_k(self, d, z, extra=b""):
        """RFC 6979 section 3.2 with SHA-256; z is the integer value of the 32-byte digest
        (bits2octets reduces it mod n once).  Only for curves with 256-bit n."""
        n = self.n
        assert n.bit_length() == 256
        assert 0 <= z < 2**256
        # bits2octets: z2 = z1 - q if z1 >= q (one conditional subtraction; z < 2^256 < 2q)
        h1 = (z - n if z >= n else z).to_bytes(32, "big")
        x = d.to_bytes(32, "big")
        V = b"\x01" * 32
        K = b"\x00" * 32
        K = hmac.new(K, V + b"\x00" + x + h1 + extra, hashlib.sha256).digest()
        V = hmac.new(K, V, hashlib.sha256).digest()
        K = hmac.new(K, V + b"\x01" + x + h1 + extra, hashlib.sha256).digest()
        V = hmac.new(K, V, hashlib.sha256).digest()
        while True:
            V = hmac.new(K, V, hashlib.sha256).digest()
            k = int.from_bytes(V, "big")
            if 1 <= k < n:
                return k
            K = hmac.new(K, V + b"\x00", hashlib.sha256).digest()
            V = hmac.new(K, V, hashlib.sha256).digest()

    def ecdsa_sign(self, d, z):
        k = self.rfc6979_k(d, z)
        return self.ecdsa_sign_k(d, z, k)

    # --- BIP340 ------------------------------------------------------------------------
    def schnorr_sign_k(self, d, msg, k0):
        """BIP340 signing from a given nonce k0 (already reduced mod n, must be non-zero)."""
        n = self.n
        P = self.mulg(d)
        dd = d if self.has_even_y(P) else n - d
        if k0 % n == 0:
            return None
        R = self.mulg(k0)
        k = k0 if self.has_even_y(R) else n - k0
        e = int.from_bytes(tagged("BIP0340/challenge", b32(R[0]) + b32(P[0]) + msg), "big") % n
        return b32(R[0]) + b32((k + e * dd) % n)

    def schnorr_nonce(self, d, msg, aux):
        n = self.n
        P = self.mulg(d)
        dd = d if self.has_even_y(P) else n - d
        t = bytes(a ^ b for a, b in zip(b32(dd), tagged("BIP0340/aux", aux)))
        return int.from_bytes(tagged("BIP0340/nonce", t + b32(P[0]) + msg), "big") % n

    def schnorr_sign(self, d, msg, aux):
        return self.schnorr_sign_k(d, msg, self.schnorr_nonce(d, msg, aux))

    def schnorr_verify(self, pk32, msg, sig64):
        n, p = self.n, self.p
        if len(pk32) != 32 or len(sig64) != 64:
            return False
        P = self.lift_x(int.from_bytes(pk32, "big"))
        if P is None:
            return False
        r = int.from_bytes(sig64[:32], "big")
        s = int.from_bytes(sig64[32:], "big")
        if r >= p or s >= n:
            return False
        e = int.from_bytes(tagged("BIP0340/challenge", sig64[:32] + pk32 + msg), "big") % n
        R = self.lin(s, self.g, n - e, P)
        if R is None or not self.has_even_y(R) or R[0] != r:
            return False
        return True

    # --- taproot -------------------------------------------------------------------------
    def taproot_tweak(self, internal_x, merkle_root=b""):
        """Returns (Q, parity, t) per BIP341 or None if undefined (t >= n, Q infinity, x not on curve)."""
        P = self.lift_x(internal_x)
        if P is None:
            return None
        t = int.from_bytes(tagged("TapTweak", b32(internal_x) + merkle_root), "big")
        if t >= self.n:
            return None
        Q = self.add(P, self.mulg(t))
        if Q is None:
            return None
        return Q, Q[1] & 1, t


def b32(i):
    return i.to_bytes(32, "big")


def tagged(tag, msg):
    t = hashlib.sha256(tag.encode()).digest()
    return hashlib.sha256(t + t + msg).digest()


def der_int(v):
    b = v.to_bytes((v.bit_length() + 7) // 8 or 1, "big")
    if b[0] & 0x80:
        b = b"\x00" + b
    return b"\x02" + bytes([len(b)]) + b


def der_sig(r, s):
    body = der_int(r) + der_int(s)
    return b"\x30" + bytes([len(body)]) + body


def der_parse_strict(b):
    """BIP66 strict DER; returns (r, s) or None."""
    if len(b) < 8 or len(b) > 72 or b[0] != 0x30 or b[1] != len(b) - 2:
        return None
    if b[2] != 2:
        return None
    lr = b[3]
    if lr == 0 or 5 + lr >= len(b):
        return None
    if b[4 + lr] != 2:
        return None
    ls = b[5 + lr]
    if ls == 0 or lr + ls + 6 != len(b):
        return None
    rb = b[4 : 4 + lr]
    sb = b[6 + lr :]
    for x in (rb, sb):
        if x[0] & 0x80:
            return None
        if len(x) > 1 and x[0] == 0 and not (x[1] & 0x80):
            return None
    return int.from_bytes(rb, "big"), int.from_bytes(sb, "big")


SECP = Curve(
    2**256 - 2**32 - 977,
    0xFFFFFFFFFFFFFFFFFFFFFFFFFFFFFFFEBAAEDCE6AF48A03BBFD25E8CD0364141,
    (
        0x79BE667EF9DCBBAC55A06295CE870B07029BFCDB2DCE28D959F2815B16F81798,
        0x483ADA7726A3C4655DA4FBFC0E1108A8FD17B448A68554199C47D08FFB10D4B8,
    ),
    "secp256k1",
)


def toy_curve(p, n):
    """The toy curve the harness instantiates pecc.py with: generator = smallest x >= 1 with a
    point, smaller y (same rule as core.toy_generator, re-derived here independently)."""
    for x in range(1, p):
        ys = [y for y in range(p) if (y * y - x * x * x - 7) % p == 0]
        if ys:
            g = (x, min(ys))
            break
    c = Curve(p, n, g, f"toy{p}")
    return c


def brute_group(c):
    """All points of a small curve and its full addition table by the textbook chord-tangent
    rule, used to validate add/mul on toy curves."""
    pts = [None] + [(x, y) for x in range(c.p) for y in range(c.p) if (y * y - x * x * x - 7) % c.p == 0]
    return pts


def curve_for(toy):
    return toy_curve(*toy) if toy else SECP


def selftest():
    c = SECP
    assert c.on_curve(c.g) and c.mul_affine(c.n, c.g) is None
    for k in (1, 2, 3, 7, 2**128 + 5, c.n - 1, c.n - 2, 0xDEADBEEF << 200):
        assert c.mul(k, c.g) == c.mul_affine(k % c.n, c.g), k
    assert c.mul(c.n, c.g) is None and c.mul(0, c.g) is None
    # RFC 6979 well-known secp256k1 vector: key 1, sha256("Satoshi Nakamoto")
    z = int.from_bytes(hashlib.sha256(b"Satoshi Nakamoto").digest(), "big")
    k = c.rfc6979_k(1, z)
    assert k == 0x8F8A276C19F4149656B280621E358CCE24F5F52542772691EE69063B74F15D15, hex(k)
    r, s = c.ecdsa_sign(1, z)
    assert r == 0x934B1EA10A4B3C1757E2B0C017D0B6143CE3C9A7E6A4A49860D7A6AB210EE3D8
    assert s == 0x2442CE9D2B916064108014783E923EC36B49743E2FFA1C4496F01A512AAFD9E5
    assert c.ecdsa_verify(c.g, z, r, s) and not c.ecdsa_verify(c.g, z + 1, r, s)
    assert der_parse_strict(der_sig(r, s)) == (r, s)
    # BIP340 test vectors 0..3 (sign) and a few verify-only rows
    vec = [
        ("0000000000000000000000000000000000000000000000000000000000000003", "0000000000000000000000000000000000000000000000000000000000000000", "0000000000000000000000000000000000000000000000000000000000000000",
         "E907831F80848D1069A5371B402410364BDF1C5F8307B0084C55F1CE2DCA821525F66A4A85EA8B71E482A74F382D2CE5EBEEE8FDB2172F477DF4900D310536C0"),
        ("B7E151628AED2A6ABF7158809CF4F3C762E7160F38B4DA56A784D9045190CFEF", "0000000000000000000000000000000000000000000000000000000000000001", "243F6A8885A308D313198A2E03707344A4093822299F31D0082EFA98EC4E6C89",
         "6896BD60EEAE296DB48A229FF71DFE071BDE413E6D43F917DC8DCF8C78DE33418906D11AC976ABCCB20B091292BFF4EA897EFCB639EA871CFA95F6DE339E4B0A"),
        ("C90FDAA22168C234C4C6628B80DC1CD129024E088A67CC74020BBEA63B14E5C9", "C87AA53824B4D7AE2EB035A2B5BBBCCC080E76CDC6D1692C4B0B62D798E6D906", "7E2D58D8B3BCDF1ABADEC7829054F90DDA9805AAB56C77333024B9D0A508B75C",
         "5831AAEED7B44BB74E5EAB94BA9D4294C49BCF2A60728D8B4C200F50DD313C1BAB745879A5AD954A72C45A91C3A51D3C7ADEA98D82F8481E0E1E03674A6F3FB7"),
        ("0B432B2677937381AEF05BB02A66ECD012773062CF3FA2549E44F58ED2401710", "FFFFFFFFFFFFFFFFFFFFFFFFFFFFFFFFFFFFFFFFFFFFFFFFFFFFFFFFFFFFFFFF", "FFFFFFFFFFFFFFFFFFFFFFFFFFFFFFFFFFFFFFFFFFFFFFFFFFFFFFFFFFFFFFFF",
         "7EB0509757E246F19449885651611CB965ECC1A187DD51B64FDA1EDC9637D5EC97582B9CB13DB3933705B32BA982AF5AF25FD78881EBB32771FC5922EFC66EA3"),
    ]
    for sk, aux, msg, sig in vec:
        d = int(sk, 16)
        got = c.schnorr_sign(d, bytes.fromhex(msg), bytes.fromhex(aux))
        assert got.hex().upper() == sig, (sk, got.hex())
        pk = b32(c.mulg(d)[0])
        assert c.schnorr_verify(pk, bytes.fromhex(msg), got)
        bad = bytearray(got)
        bad[40] ^= 1
        assert not c.schnorr_verify(pk, bytes.fromhex(msg), bytes(bad))
    # vector 5: public key not on the curve
    assert not c.schnorr_verify(bytes.fromhex("EEFDEA4CDB677750A420FEE807EACF21EB9898AE79B9768766E4FAA04A2D4A34"), bytes(32), bytes(64))
    # toy curves: order, Jacobian vs affine vs brute-force enumeration
    for p, n in ((43, 31), (79, 67), (67, 79), (163, 139), (211, 199)):
        t = toy_curve(p, n)
        pts = brute_group(t)
        assert len(pts) == n, (p, n, len(pts))
        assert all(P is None or P[0] != 0 for P in pts)
        assert t.mul_affine(n, t.g) is None
        seen = set()
        for k in range(n):
            P = t.mul_affine(k, t.g)
            assert P == t.mul(k, t.g) and t.on_curve(P)
            seen.add(P)
        assert seen == set(pts)
        if n <= 79:
            for P in pts:
                for Q in pts:
                    assert t.add(P, Q) == t.add(Q, P) and t.add(P, Q) in seen
    # general short Weierstrass curves (optional a, b): closure, commutativity, associativity, inverses and the
    # group order annihilating every point, on every non-singular curve over F_5, F_7 and F_11
    for p in (5, 7, 11):
        for a in range(p):
            for b in range(p):
                if (4 * a**3 + 27 * b * b) % p == 0:
                    continue
                w = Curve(p, 0, None, a=a, b=b)
                pts = [None] + [(x, y) for x in range(p) for y in range(p) if (y * y - x**3 - a * x - b) % p == 0]
                assert all(w.on_curve(P) for P in pts) and abs(len(pts) - (p + 1)) <= 2 * p**0.5
                ps = set(pts)
                for P in pts:
                    assert w.add(P, w.neg(P)) is None and w.add(P, None) == P and w.mul_affine(len(pts), P) is None
                    assert w.mul_affine(-3, P) == w.neg(w.add(P, w.add(P, P)))
                    for Q in pts:
                        assert w.add(P, Q) == w.add(Q, P) and w.add(P, Q) in ps
                        if p <= 7:
                            for R in pts:
                                assert w.add(w.add(P, Q), R) == w.add(P, w.add(Q, R))
    return True


if __name__ == "__main__":
    selftest()
    print("ec selftest ok")
