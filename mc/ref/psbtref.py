"""Reference BIP174 container reader/writer (no semantics: just the key-value maps).

A PSBT is  magic 'psbt' 0xff | global map | one map per input | one map per output, each map a
sequence of <compact-size key length><key><compact-size value length><value> terminated by 0x00.
The number of input/output maps comes from the unsigned transaction in global key 0x00.
"""
from mc.ref import txref

MAGIC = b"psbt\xff"


def read_map(buf, pos):
    """-> (list of (key, value), new pos)"""
    out = []
    while True:
        klen, pos = txref.read_compact(buf, pos)
        if klen == 0:
            return out, pos
        key = buf[pos : pos + klen]
        if len(key) != klen:
            raise ValueError("short key")
        pos += klen
        vlen, pos = txref.read_compact(buf, pos)
        val = buf[pos : pos + vlen]
        if len(val) != vlen:
            raise ValueError("short value")
        pos += vlen
        out.append((key, val))


def write_map(kvs):
    return b"".join(txref.varbytes(k) + txref.varbytes(v) for k, v in kvs) + b"\x00"


def parse(raw):
    """-> {"global": [(k,v)...], "ins": [[(k,v)...]...], "outs": [...], "tx": abstract tx}"""
    if raw[:5] != MAGIC:
        raise ValueError("magic")
    g, pos = read_map(raw, 5)
    txs = [v for k, v in g if k == b"\x00"]
    if len(txs) != 1:
        raise ValueError("unsigned tx missing or duplicated")
    tx = parse_unsigned_tx(txs[0])
    ins, outs = [], []
    for _ in tx["ins"]:
        m, pos = read_map(raw, pos)
        ins.append(m)
    for _ in tx["outs"]:
        m, pos = read_map(raw, pos)
        outs.append(m)
    if pos != len(raw):
        raise ValueError("trailing bytes")
    for m in [g] + ins + outs:
        keys = [k for k, _ in m]
        if len(set(keys)) != len(keys):
            raise ValueError("duplicate key")
    return {"global": g, "ins": ins, "outs": outs, "tx": tx}


def parse_unsigned_tx(b):
    """BIP174: the unsigned transaction is in non-witness serialisation and every scriptSig is empty.
    Parsed strictly as the legacy format (a 0x00 input count followed by 0x01 is NOT accepted as a marker)."""
    import struct

    pos = 4
    n, pos = txref.read_compact(b, pos)
    if n == 0:
        raise ValueError("unsigned tx has no inputs or is in witness format")
    tx = txref.parse_tx(b)
    if tx["segwit"]:
        raise ValueError("unsigned tx is in witness format")
    if any(i["script"] for i in tx["ins"]):
        raise ValueError("unsigned tx has a non-empty scriptSig")
    return tx


def serialize(p):
    return MAGIC + write_map(p["global"]) + b"".join(write_map(m) for m in p["ins"]) + b"".join(write_map(m) for m in p["outs"])


def selftest():
    import base64

    # BIP174 test vector: a PSBT with one P2PKH input (non-witness utxo) and two outputs
    b64 = (
        "cHNidP8BAHUCAAAAASaBcTce3/KF6Tet7qSze3gADAVmy7OtZGQXE8pCFxv2AAAAAAD+////AtPf9QUAAAAAGXapFNDFmQPFusKGh2DpD9UhpGZap2UgiKwA4fUFAAAAABepFDVF5uM7gyxHBQ8k0+65PJwDlIvHh7MuEwAAAQD9pQEBAAAAAAECiaPHHqtNIOA3G7ukzGmPopXJRjr6Ljl/hTPMti+VZ+UBAAAAFxYAFL4Y0VKpsBIDna89p95PUzSe7LmF/////4b4qkOnHf8USIk6UwpyN+9rRgi7st0tAXHmOuxqSJC0AQAAABcWABT+Pp7xp0XpdNkCxDVZQ6vLNL1TU/////8CAMLrCwAAAAAZdqkUhc/xCX/Z4Ai7NK9wnGIZeziXikiIrHL++E4sAAAAF6kUM5cluiHv1irHU6m80GfWx6ajnQWHAkcwRAIgJxK+IuAnDzlPVoMR3HyppolwuAJf3TskAinwf4pfOiQCIAGLONfc0xTnNMkna9b7QPZzMlvEuqFEyADS8vAtsnZcASED0uFWdJQbrUqZY3LLh+GFbTZSYG2YVi/jnF6efkE/IQUCSDBFAiEA0SuFLYXc2WHS9fSrZgZU327tzHlMDDPOXMMJ/7X85Y0CIGczio4OFyXBl/saiK9Z9R5E5CVbIBZ8hoQDHAXR8lkqASECI7cr7vCWXRC+B3jv7NYfysb3mk6haTkzgHNEZPhPKrMAAAAAAAAA"
    )
    raw = base64.b64decode(b64)
    p = parse(raw)
    assert serialize(p) == raw
    assert len(p["ins"]) == 1 and len(p["outs"]) == 2
    assert p["ins"][0][0][0] == b"\x00"
    return True


if __name__ == "__main__":
    selftest()
    print("psbtref selftest ok")
