"""Reference models for C18: SipHash-2-4, MurmurHash3 x86_32, Golomb-Rice bit streams, BIP158 basic
filters and BIP157 filter headers, BIP37 bloom filters.

Written from the SipHash paper (Aumasson/Bernstein, section 2), Appleby's MurmurHash3_x86_32, BIP158, BIP157
and BIP37.  Shares no code with buidl; only hashlib/struct.  The algorithms are deliberately written in a
different style from the library (word-wise state machine with explicit rotl, integer bit accumulator
instead of bit lists).
"""
import hashlib
import struct

M64 = (1 << 64) - 1
M32 = (1 << 32) - 1

BIP158_P = 19
BIP158_M = 784931
BIP37_MUL = 0xFBA4C795


def sha256(b):
    return hashlib.sha256(b).digest()


def dsha(b):
    return sha256(sha256(b))


def compact_size(n):
    if n < 0xFD:
        return bytes([n])
    if n <= 0xFFFF:
        return b"\xfd" + struct.pack("<H", n)
    if n <= 0xFFFFFFFF:
        return b"\xfe" + struct.pack("<I", n)
    return b"\xff" + struct.pack("<Q", n)


def read_compact_size(buf, pos=0):
    b = buf[pos]
    if b < 0xFD:
        return b, pos + 1
    if b == 0xFD:
        return struct.unpack_from("<H", buf, pos + 1)[0], pos + 3
    if b == 0xFE:
        return struct.unpack_from("<I", buf, pos + 1)[0], pos + 5
    return struct.unpack_from("<Q", buf, pos + 1)[0], pos + 9


# ------------------------------------------------------------------ SipHash-2-4 (paper, section 2)
def _rotl64(x, b):
    return ((x << b) | (x >> (64 - b))) & M64


def _sipround(v0, v1, v2, v3):
    v0 = (v0 + v1) & M64
    v1 = _rotl64(v1, 13)
    v1 ^= v0
    v0 = _rotl64(v0, 32)
    v2 = (v2 + v3) & M64
    v3 = _rotl64(v3, 16)
    v3 ^= v2
    v0 = (v0 + v3) & M64
    v3 = _rotl64(v3, 21)
    v3 ^= v0
    v2 = (v2 + v1) & M64
    v1 = _rotl64(v1, 17)
    v1 ^= v2
    v2 = _rotl64(v2, 32)
    return v0, v1, v2, v3


def siphash24(key, msg):
    """64-bit SipHash-2-4 of msg under the 16-byte key, as an integer."""
    if len(key) != 16:
        raise ValueError("key must be 16 bytes")
    k0 = int.from_bytes(key[:8], "little")
    k1 = int.from_bytes(key[8:], "little")
    v0 = k0 ^ 0x736F6D6570736575
    v1 = k1 ^ 0x646F72616E646F6D
    v2 = k0 ^ 0x6C7967656E657261
    v3 = k1 ^ 0x7465646279746573
    n = len(msg)
    full = n - (n % 8)
    words = [int.from_bytes(msg[i : i + 8], "little") for i in range(0, full, 8)]
    last = int.from_bytes(msg[full:], "little") | ((n % 256) << 56)
    words.append(last)
    for m in words:
        v3 ^= m
        v0, v1, v2, v3 = _sipround(v0, v1, v2, v3)
        v0, v1, v2, v3 = _sipround(v0, v1, v2, v3)
        v0 ^= m
    v2 ^= 0xFF
    for _ in range(4):
        v0, v1, v2, v3 = _sipround(v0, v1, v2, v3)
    return v0 ^ v1 ^ v2 ^ v3


# ------------------------------------------------------------------ MurmurHash3 x86_32
def _rotl32(x, b):
    return ((x << b) | (x >> (32 - b))) & M32


def murmur3_32(data, seed):
    """MurmurHash3_x86_32; seed is taken modulo 2^32 (uint32_t argument)."""
    h = seed & M32
    n = len(data)
    nblocks = n // 4
    for (k,) in struct.iter_unpack("<I", data[: nblocks * 4]):
        k = (k * 0xCC9E2D51) & M32
        k = _rotl32(k, 15)
        k = (k * 0x1B873593) & M32
        h ^= k
        h = _rotl32(h, 13)
        h = (h * 5 + 0xE6546B64) & M32
    tail = data[nblocks * 4 :]
    if tail:
        k = int.from_bytes(tail, "little")
        k = (k * 0xCC9E2D51) & M32
        k = _rotl32(k, 15)
        k = (k * 0x1B873593) & M32
        h ^= k
    h ^= n & M32
    h ^= h >> 16
    h = (h * 0x85EBCA6B) & M32
    h ^= h >> 13
    h = (h * 0xC2B2AE35) & M32
    h ^= h >> 16
    return h


# ------------------------------------------------------------------ Golomb-Rice bit streams (BIP158)
def golomb_code(x, p=BIP158_P):
    """(value, nbits) of the Golomb-Rice code of x: q = x >> p one-bits, a zero bit, the p low bits of x."""
    q = x >> p
    return ((((1 << q) - 1) << (p + 1)) | (x & ((1 << p) - 1))), q + 1 + p


class BitWriter:
    """MSB-first bit stream kept as one big integer."""

    def __init__(self):
        self.acc = 0
        self.n = 0

    def write(self, nbits, value):
        """append the nbits low bits of value, most significant first"""
        self.acc = (self.acc << nbits) | (value & ((1 << nbits) - 1))
        self.n += nbits

    def golomb(self, x, p=BIP158_P):
        acc, n = golomb_code(x, p)
        self.write(n, acc)

    def bits(self):
        return [(self.acc >> (self.n - 1 - i)) & 1 for i in range(self.n)]

    def bytes(self):
        pad = -self.n % 8
        return (self.acc << pad).to_bytes((self.n + pad) // 8, "big")


class BitReader:
    def __init__(self, data):
        self.acc = int.from_bytes(data, "big")
        self.n = len(data) * 8
        self.pos = 0

    def read(self, nbits):
        if self.pos + nbits > self.n:
            raise ValueError("out of bits")
        self.pos += nbits
        return (self.acc >> (self.n - self.pos)) & ((1 << nbits) - 1)

    def golomb(self, p=BIP158_P):
        q = 0
        while self.read(1):
            q += 1
        return (q << p) | self.read(p)


def golomb_bits(x, p=BIP158_P):
    w = BitWriter()
    w.golomb(x, p)
    return w.bits()


def golomb_bytes(x, p=BIP158_P):
    acc, n = golomb_code(x, p)
    pad = -n % 8
    return (acc << pad).to_bytes((n + pad) // 8, "big")


def pack(bits):
    """MSB-first packing of a list of 0/1 into bytes, zero padded to a byte boundary."""
    out = bytearray((len(bits) + 7) // 8)
    for i, b in enumerate(bits):
        if b:
            out[i // 8] |= 0x80 >> (i % 8)
    return bytes(out)


def unpack(data):
    return [(byte >> (7 - j)) & 1 for byte in data for j in range(8)]


# ------------------------------------------------------------------ BIP158
def map_to_range(key, element, f):
    return (siphash24(key, element) * f) >> 64


def hashed_set(key, elements, m=BIP158_M):
    """Sorted list of the mapped values of the N elements (N = len(elements); duplicates of mapped
    values are kept: BIP158 sorts the list of hashed values and encodes every one, delta 0 included)."""
    f = len(elements) * m
    return sorted(map_to_range(key, e, f) for e in elements)


def gcs_from_values(values, p=BIP158_P):
    w = BitWriter()
    last = 0
    for v in values:
        w.golomb(v - last, p)
        last = v
    return compact_size(len(values)) + w.bytes()


def gcs_build(key, elements, p=BIP158_P, m=BIP158_M):
    """elements: list of *distinct* byte strings (the caller de-duplicates raw elements)."""
    return gcs_from_values(hashed_set(key, elements, m), p)


def gcs_values(data, p=BIP158_P):
    n, pos = read_compact_size(data, 0)
    r = BitReader(data[pos:])
    out = []
    cur = 0
    for _ in range(n):
        cur += r.golomb(p)
        out.append(cur)
    return out


def gcs_match(key, data, element, p=BIP158_P, m=BIP158_M):
    n, _ = read_compact_size(data, 0)
    target = map_to_range(key, element, n * m)
    return target in gcs_values(data, p)


def filter_hash(data):
    return dsha(data)


def filter_header(fhash, prev_header):
    return dsha(fhash + prev_header)


def header_chain(prev_header, filter_hashes):
    """list of successive headers"""
    out = []
    cur = prev_header
    for fh in filter_hashes:
        cur = filter_header(fh, cur)
        out.append(cur)
    return out


def key_from_block_hash_wire(block_hash_wire):
    """BIP158: k = first 16 bytes of the block hash in its internal (little-endian, wire) byte order."""
    return block_hash_wire[:16]


def find_collision(key, n, make_item, limit=2_000_000, m=BIP158_M):
    """Walk the fixed sequence make_item(0), make_item(1), ... until two items map to the same value of
    [0, n*m).  Returns (i, j, value), i < j."""
    f = n * m
    seen = {}
    for j in range(limit):
        v = (siphash24(key, make_item(j)) * f) >> 64
        if v in seen:
            return seen[v], j, v
        seen[v] = j
    raise RuntimeError("no collision within limit")


# ------------------------------------------------------------------ BIP37
def bloom_seed(i, tweak):
    return (i * BIP37_MUL + tweak) & M32


def bloom_positions(item, size_bytes, nfuncs, tweak):
    return [murmur3_32(item, bloom_seed(i, tweak)) % (size_bytes * 8) for i in range(nfuncs)]


def bloom_insert(vdata, item, nfuncs, tweak):
    """vdata: bytearray, modified in place"""
    for idx in bloom_positions(item, len(vdata), nfuncs, tweak):
        vdata[idx >> 3] |= 1 << (7 & idx)


def bloom_contains(vdata, item, nfuncs, tweak):
    return all(vdata[idx >> 3] & (1 << (7 & idx)) for idx in bloom_positions(item, len(vdata), nfuncs, tweak))


def filterload_payload(vdata, nfuncs, tweak, flags):
    return compact_size(len(vdata)) + bytes(vdata) + struct.pack("<I", nfuncs) + struct.pack("<I", tweak) + bytes([flags])


# ------------------------------------------------------------------ tiny block walker (selftest only)
def _block_output_scripts(raw):
    pos = 80
    ntx, pos = read_compact_size(raw, pos)
    scripts = []
    for _ in range(ntx):
        pos += 4
        segwit = False
        if raw[pos] == 0 and raw[pos + 1] == 1:
            segwit = True
            pos += 2
        nin, pos = read_compact_size(raw, pos)
        for _ in range(nin):
            pos += 36
            ln, pos = read_compact_size(raw, pos)
            pos += ln + 4
        nout, pos = read_compact_size(raw, pos)
        for _ in range(nout):
            pos += 8
            ln, pos = read_compact_size(raw, pos)
            scripts.append(raw[pos : pos + ln])
            pos += ln
        if segwit:
            for _ in range(nin):
                k, pos = read_compact_size(raw, pos)
                for _ in range(k):
                    ln, pos = read_compact_size(raw, pos)
                    pos += ln
        pos += 4
    assert pos == len(raw), (pos, len(raw))
    return scripts


BIP158_VECTORS = [
    (
        0,
        "000000000933ea01ad0ee984209779baaec3ced90fa3f408719526f8d77f4943",
        (
            "0100000000000000000000000000000000000000000000000000000000000000000000003ba3edfd7a7b12b27ac72c3e67768f617fc81bc3888a5132"
            "3a9fb8aa4b1e5e4adae5494dffff001d1aa4ae180101000000010000000000000000000000000000000000000000000000000000000000000000ffff"
            "ffff4d04ffff001d0104455468652054696d65732030332f4a616e2f32303039204368616e63656c6c6f72206f6e206272696e6b206f66207365636f"
            "6e64206261696c6f757420666f722062616e6b73ffffffff0100f2052a01000000434104678afdb0fe5548271967f1a67130b7105cd6a828e03909a6"
            "7962e0ea1f61deb649f6bc3f4cef38c4f35504e51ec112de5c384df7ba0b8d578a4c702b6bf11d5fac00000000"
        ),
        [
        ],
        "0000000000000000000000000000000000000000000000000000000000000000",
        "019dfca8",
        "21584579b7eb08997773e5aeff3a7f932700042d0ed2a6129012b7d7ae81b750",
    ),
    (
        2,
        "000000006c02c8ea6e4ff69651f7fcde348fb9d557a06e6957b65552002a7820",
        (
            "0100000006128e87be8b1b4dea47a7247d5528d2702c96826c7a648497e773b800000000e241352e3bec0a95a6217e10c3abb54adfa05abb12c12669"
            "5595580fb92e222032e7494dffff001d00d235340101000000010000000000000000000000000000000000000000000000000000000000000000ffff"
            "ffff0e0432e7494d010e062f503253482fffffffff0100f2052a010000002321038a7f6ef1c8ca0c588aa53fa860128077c9e6c11e6830f4d7ee4e76"
            "3a56b7718fac00000000"
        ),
        [
        ],
        "d7bdac13a59d745b1add0d2ce852f1a0442e8945fc1bf3848d3cbffd88c24fe1",
        "0174a170",
        "186afd11ef2b5e7e3504f2e8cbf8df28a1fd251fe53d60dff8b1467d1b386cf0",
    ),
    (
        3,
        "000000008b896e272758da5297bcd98fdc6d97c9b765ecec401e286dc1fdbe10",
        (
            "0100000020782a005255b657696ea057d5b98f34defcf75196f64f6eeac8026c0000000041ba5afc532aae03151b8aa87b65e1594f97504a768e010c"
            "98c0add79216247186e7494dffff001d058dc2b60101000000010000000000000000000000000000000000000000000000000000000000000000ffff"
            "ffff0e0486e7494d0151062f503253482fffffffff0100f2052a01000000232103f6d9ff4c12959445ca5549c811683bf9c88e637b222dd2e0311154"
            "c4c85cf423ac00000000"
        ),
        [
        ],
        "186afd11ef2b5e7e3504f2e8cbf8df28a1fd251fe53d60dff8b1467d1b386cf0",
        "016cf7a0",
        "8d63aadf5ab7257cb6d2316a57b16f517bff1c6388f124ec4c04af1212729d2a",
    ),
    (
        49291,
        "0000000018b07dca1b28b4b5a119f6d6e71698ce1ed96f143f54179ce177a19c",
        (
            "02000000abfaf47274223ca2fea22797e44498240e482cb4c2f2baea088962f800000000604b5b52c32305b15d7542071d8b04e750a547500005d401"
            "0727694b6e72a776e55d0d51ffff001d211806480201000000010000000000000000000000000000000000000000000000000000000000000000ffff"
            "ffff0d038bc0000102062f503253482fffffffff01a078072a01000000232102971dd6034ed0cf52450b608d196c07d6345184fcb14deb277a6b82d5"
            "26a6163dac0000000001000000081cefd96060ecb1c4fbe675ad8a4f8bdc61d634c52b3a1c4116dee23749fe80ff0000000093004930460221008668"
            "59c21f306538152e83f115bcfbf59ab4bb34887a88c03483a5dff9895f96022100a6dfd83caa609bf0516debc2bf65c3df91813a4842650a1858b3f6"
            "1cfa8af249014730440220296d4b818bb037d0f83f9f7111665f49532dfdcbec1e6b784526e9ac4046eaa602204acf3a5cb2695e8404d80bf49ab048"
            "28bcbe6fc31d25a2844ced7a8d24afbdff01ffffffff1cefd96060ecb1c4fbe675ad8a4f8bdc61d634c52b3a1c4116dee23749fe80ff020000009400"
            "483045022100e87899175991aa008176cb553c6f2badbb5b741f328c9845fcab89f8b18cae2302200acce689896dc82933015e7230e5230d5cff8a1f"
            "fe82d334d60162ac2c5b0c9601493046022100994ad29d1e7b03e41731a4316e5f4992f0d9b6e2efc40a1ccd2c949b461175c502210099b69fdc2db0"
            "0fbba214f16e286f6a49e2d8a0d5ffc6409d87796add475478d601ffffffff1e4a6d2d280ea06680d6cf8788ac90344a9c67cca9b06005bbd6d3f694"
            "5c8272010000009500493046022100a27400ba52fd842ce07398a1de102f710a10c5599545e6c95798934352c2e4df022100f6383b0b14c9f64b6718"
            "139f55b6b9494374755b86bae7d63f5d3e583b57255a01493046022100fdf543292f34e1eeb1703b264965339ec4a450ec47585009c606b3edbc5b61"
            "7b022100a5fbb1c8de8aaaa582988cdb23622838e38de90bebcaab3928d949aa502a65d401ffffffff1e4a6d2d280ea06680d6cf8788ac90344a9c67"
            "cca9b06005bbd6d3f6945c8272020000009400493046022100ac626ac3051f875145b4fe4cfe089ea895aac73f65ab837b1ac30f5d875874fa022100"
            "bc03e79fa4b7eb707fb735b95ff6613ca33adeaf3a0607cdcead4cfd3b51729801483045022100b720b04a5c5e2f61b7df0fcf334ab6fea167b7aaed"
            "e5695d3f7c6973496adbf1022043328c4cc1cdc3e5db7bb895ccc37133e960b2fd3ece98350f774596badb387201ffffffff23a8733e349c97d6cd90"
            "f520fdd084ba15ce0a395aad03cd51370602bb9e5db3010000004a00483045022100e8556b72c5e9c0da7371913a45861a61c5df434dfd962de7b238"
            "48e1a28c86ca02205d41ceda00136267281be0974be132ac4cda1459fe2090ce455619d8b91045e901ffffffff6856d609b881e875a5ee141c235e2a"
            "82f6b039f2b9babe82333677a5570285a6000000006a473044022040a1c631554b8b210fbdf2a73f191b2851afb51d5171fb53502a3a040a38d2c002"
            "2040d11cf6e7b41fe1b66c3d08f6ada1aee07a047cb77f242b8ecc63812c832c9a012102bcfad931b502761e452962a5976c79158a0f6d307ad31b73"
            "9611dac6a297c256ffffffff6856d609b881e875a5ee141c235e2a82f6b039f2b9babe82333677a5570285a601000000930048304502205b109df098"
            "f7e932fbf71a45869c3f80323974a826ee2770789eae178a21bfc8022100c0e75615e53ee4b6e32b9bb5faa36ac539e9c05fa2ae6b6de5d09c08455c"
            "8b9601483045022009fb7d27375c47bea23b24818634df6a54ecf72d52e0c1268fb2a2c84f1885de022100e0ed4f15d62e7f537da0d0f1863498f9c7"
            "c0c0a4e00e4679588c8d1a9eb20bb801ffffffffa563c3722b7b39481836d5edfc1461f97335d5d1e9a23ade13680d0e2c1c371f030000006c493046"
            "022100ecc38ae2b1565643dc3c0dad5e961a5f0ea09cab28d024f92fa05c922924157e022100ebc166edf6fbe4004c72bfe8cf40130263f98ddff728"
            "c8e67b113dbd621906a601210211a4ed241174708c07206601b44a4c1c29e5ad8b1f731c50ca7e1d4b2a06dc1fffffffff02d0223a00000000001976"
            "a91445db0b779c0b9fa207f12a8218c94fc77aff504588ac80f0fa02000000000000000000"
        ),
        [
            "5221033423007d8f263819a2e42becaaf5b06f34cb09919e06304349d950668209eaed21021d69e2b68c3960903b702af7829fadcd80bd89b158150c85c4a75b2c8cb9c39452ae",
            "52210279be667ef9dcbbac55a06295ce870b07029bfcdb2dce28d959f2815b16f8179821021d69e2b68c3960903b702af7829fadcd80bd89b158150c85c4a75b2c8cb9c39452ae",
            "522102a7ae1e0971fc1689bd66d2a7296da3a1662fd21a53c9e38979e0f090a375c12d21022adb62335f41eb4e27056ac37d462cda5ad783fa8e0e526ed79c752475db285d52ae",
            "52210279be667ef9dcbbac55a06295ce870b07029bfcdb2dce28d959f2815b16f8179821022adb62335f41eb4e27056ac37d462cda5ad783fa8e0e526ed79c752475db285d52ae",
            "512103b9d1d0e2b4355ec3cdef7c11a5c0beff9e8b8d8372ab4b4e0aaf30e80173001951ae",
            "76a9149144761ebaccd5b4bbdc2a35453585b5637b2f8588ac",
            "522103f1848b40621c5d48471d9784c8174ca060555891ace6d2b03c58eece946b1a9121020ee5d32b54d429c152fdc7b1db84f2074b0564d35400d89d11870f9273ec140c52ae",
            "76a914f4fa1cc7de742d135ea82c17adf0bb9cf5f4fb8388ac",
        ],
        "ed47705334f4643892ca46396eb3f4196a5e30880589e4009ef38eae895d4a13",
        "0afbc2920af1b027f31f87b592276eb4c32094bb4d3697021b4c6380",
        "b6d98692cec5145f67585f3434ec3c2b3030182e1cb3ec58b855c5c164dfaaa3",
    ),
    (
        180480,
        "00000000fd3ceb2404ff07a785c7fdcc76619edc8ed61bd25134eaa22084366a",
        (
            "020000006058aa080a655aa991a444bd7d1f2defd9a3bbe68aabb69030cf3b4e00000000d2e826bfd7ef0beaa891a7eedbc92cd6a544a6cb61c7bdaa"
            "436762eb2123ef9790f5f552ffff001d0002c90f0501000000010000000000000000000000000000000000000000000000000000000000000000ffff"
            "ffff0e0300c102024608062f503253482fffffffff01c0c6072a01000000232102e769e60137a4df6b0df8ebd387cca44c4c57ae74cc0114a8e8317c"
            "8f3bfd85e9ac00000000010000000381a0802911a01ffb025c4dea0bc77963e8c1bb46313b71164c53f72f37fe5248010000000151ffffffffc904b2"
            "67833d215e2128bd9575242232ac2bc311550c7fc1f0ef6f264b40d14c010000000151ffffffffdf0915666649dba81886519c531649b7b02180b4af"
            "67d6885e871299e9d5f775000000000151ffffffff0180817dcb00000000232103bb52138972c48a132fc1f637858c5189607dd0f7fe40c4f20f6ad6"
            "5f2d389ba4ac0000000001000000018da38b434fba82d66052af74fc5e4e94301b114d9bc03f819dc876398404c8b4010000006c493046022100fe73"
            "8b7580dc5fb5168e51fc61b5aed211125eb71068031009a22d9bbad752c5022100be5086baa384d40bcab0fa586e4f728397388d86e18b66cc417dc4"
            "f7fa4f9878012103f233299455134caa2687bdf15cb0becdfb03bd0ff2ff38e65ec6b7834295c34fffffffff022ebc1400000000001976a9147779b7"
            "fba1c1e06b717069b80ca170e8b04458a488ac9879c40f000000001976a9142a0307cd925dbb66b534c4db33003dd18c57015788ac00000000010000"
            "00026139a62e3422a602de36c873a225c1d3ca5aeee598539ceecb9f0dc8d1ad0f83010000006b483045022100ad9f32b4a0a2ddc19b5a74eba78123"
            "e57616f1b3cfd72ce68c03ea35a3dda1f002200dbd22aa6da17213df5e70dfc3b2611d40f70c98ed9626aa5e2cde9d97461f0a012103ddb295d2f1e8"
            "319187738fb4b230fdd9aa29d0e01647f69f6d770b9ab24eea90ffffffff983c82c87cf020040d671956525014d5c2b28c6d948c85e1a522362c0059"
            "eeae010000006b4830450221009ca544274c786d30a5d5d25e17759201ea16d3aedddf0b9e9721246f7ef6b32e02202cfa5564b6e87dfd9fd9895782"
            "0e4d4e6238baeb0f65fe305d91506bb13f5f4f012103c99113deac0d5d044e3ac0346abc02501542af8c8d3759f1382c72ff84e704f7ffffffff02c0"
            "c62d00000000001976a914ae19d27efe12f5a886dc79af37ad6805db6f922d88ac70ce2000000000001976a9143b8d051d37a07ea1042067e93efe63"
            "dbf73920b988ac000000000100000002be566e8cd9933f0c75c4a82c027f7d0c544d5c101d0607ef6ae5d07b98e7f1dc000000006b483045022036a8"
            "cdfd5ea7ebc06c2bfb6e4f942bbf9a1caeded41680d11a3a9f5d8284abad022100cacb92a5be3f39e8bc14db1710910ef7b395fa1e18f45d41c28d91"
            "4fcdde33be012102bf59abf110b5131fae0a3ce1ec379329b4c896a6ae5d443edb68529cc2bc7816ffffffff96cf67645b76ceb23fe922874847456a"
            "15feee1655082ff32d25a6bf2c0dfc90000000006a47304402203471ca2001784a5ac0abab583581f2613523da47ec5f53df833c117b5abd81500220"
            "618a2847723d57324f2984678db556dbca1a72230fc7e39df04c2239942ba942012102925c9794fd7bb9f8b29e207d5fc491b1150135a21f50504185"
            "8889fa4edf436fffffffff026c840f00000000001976a914797fb8777d7991d8284d88bfd421ce520f0f843188ac00ca9a3b000000001976a9146d10"
            "f3f592699265d10b106eda37c3ce793f7a8588ac00000000"
        ),
        [
            "",
            "",
            "",
            "76a9142903b138c24be9e070b3e73ec495d77a204615e788ac",
            "76a91433a1941fd9a37b9821d376f5a51bd4b52fa50e2888ac",
            "76a914e4374e8155d0865742ca12b8d4d14d41b57d682f88ac",
            "76a914001fa7459a6cfc64bdc178ba7e7a21603bb2568f88ac",
            "76a914f6039952bc2b307aeec5371bfb96b66078ec17f688ac",
        ],
        "b109139671dbedc2b6fcd499a5480a7461ae458af8ff9411d819aa64ba6995d1",
        "0db414c859a07e8205876354a210a75042d0463404913d61a8e068e58a3ae2aa080026",
        "a0af77e0a7ed20ea78d2def3200cc24f08217dcd51755c7c7feb0e2ba8316c2d",
    ),
    (
        1263442,
        "000000006f27ddfe1dd680044a34548f41bed47eba9e6f0b310da21423bc5f33",
        (
            "000000201c8d1a529c39a396db2db234d5ec152fa651a2872966daccbde028b400000000083f14492679151dbfaa1a825ef4c18518e780c1f9104418"
            "0280a7d33f4a98ff5f45765aaddc001d38333b9a02010000000001010000000000000000000000000000000000000000000000000000000000000000"
            "ffffffff230352471300fe5f45765afe94690a000963676d696e6572343208000000000000000000ffffffff024423a804000000001976a914f2c25a"
            "c3d59f3d674b1d1d0a25c27339aaac0ba688ac0000000000000000266a24aa21a9edcb26cb3052426b9ebb4d19c819ef87c19677bbf3a7c46ef0855b"
            "d1b2abe83491012000000000000000000000000000000000000000000000000000000000000000000000000002000000000101d20978463906ba4ff5"
            "e7192494b88dd5eb0de85d900ab253af909106faa22cc5010000000004000000014777ff000000000016001446c29eabe8208a33aa1023c741fa79aa"
            "92e881ff0347304402207d7ca96134f2bcfdd6b536536fdd39ad17793632016936f777ebb32c22943fda02206014d2fb8a6aa58279797f861042ba60"
            "4ebd2f8f61e5bddbd9d3be5a245047b201004b632103eeaeba7ce5dc2470221e9517fb498e8d6bd4e73b85b8be655196972eb9ccd5566754b2752103"
            "a40b74d43df244799d041f32ce1ad515a6cd99501701540e38750d883ae21d3a68ac00000000"
        ),
        [
            "002027a5000c7917f785d8fc6e5a55adfca8717ecb973ebb7743849ff956d896a7ed",
        ],
        "a4a4d6c6034da8aa06f01fe71f1fffbd79e032006b07f6c7a2c60a66aa310c01",
        "0385acb4f0fe889ef0",
        "3588f34fbbc11640f9ed40b2a66a4e096215d50389691309c1dac74d4268aa81",
    ),
]

SIPHASH_PAPER_VECTORS = (
    "310e0edd47db6f72 fd67dc93c539f874 5a4fa9d909806c0d 2d7efbd796666785 b7877127e09427cf 8da699cd64557618 "
    "cee3fe586e46c9cb 37d1018bf50002ab 6224939a79f5f593 b0e4a90bdf82009e f3b9dd94c5bb5d7a a7ad6b22462fb3f4 "
    "fbe50e86bc8f1e75 903d84c02756ea14 eef27a8e90ca23f7 e545be4961ca29a1 db9bc2577fcc2a3f 9447be2cf5e99a69 "
    "9cd38d96f0b3c14b bd6179a71dc96dbb 98eea21af25cd6be c7673b2eb0cbf2d0 883ea3e395675393 c8ce5ccd8c030ca8 "
    "94af49f6c650adb8 eab8858ade92e1bc f315bb5bb835d817 adcf6b0763612e2f a5c91da7acaa4dde 716595876650a2a6 "
    "28ef495c53a387ad 42c341d8fa92d832 ce7cf2722f512771 e37859f94623f3a7 381205bb1ab0e012 ae97a10fd434e015 "
    "b4a31508beff4d31 81396229f0907902 4d0cf49ee5d4dcca 5c73336a76d8bf9a d0a704536ba93e0e 925958fcd6420cad "
    "a915c29bc8067318 952b79f3bc0aa6d4 f21df2e41d4535f9 87577519048f53a9 10a56cf5dfcd9adb eb75095ccd986cd0 "
    "51a9cb9ecba312e6 96afadfc2ce666c7 72fe52975a4364ee 5a1645b276d592a1 b274cb8ebf87870a 6f9bb4203de7b381 "
    "eaecb2a30b22a87f 9924a43cc1315724 bd838d3aafbf8db7 0b1a2a3265d51aea 135079a3231ce660 932b2846e4d70666 "
    "e1915f5cb1eca46c f325965ca16d629f 575ff28e60381be5 724506eb4c328a95"
).split()


def selftest():
    # SipHash-2-4: the 64 vectors of the reference implementation (key 00..0f, message 00..(i-1)), little-endian digests
    key = bytes(range(16))
    msg = bytes(range(64))
    assert len(SIPHASH_PAPER_VECTORS) == 64
    for i, v in enumerate(SIPHASH_PAPER_VECTORS):
        assert struct.pack("<Q", siphash24(key, msg[:i])).hex() == v, i
    # the paper's worked example (Appendix A): 15-byte message
    assert siphash24(key, bytes(range(15))) == 0xA129CA6149BE45E5
    # Bitcoin Core hash_tests.cpp siphash values
    assert siphash24(key, b"") == 0x726FDB47DD0E0E31
    assert siphash24(key, b"\x00") == 0x74F839C593DC67FD
    assert siphash24(key, bytes(range(8))) == 0x93F5F5799A932462
    assert siphash24(key, bytes(range(16))) == 0x3F2ACC7F57C29BDB
    # MurmurHash3 x86_32: Bitcoin Core hash_tests.cpp vectors and widely published ones
    mv = [
        (0x00000000, 0x00000000, ""),
        (0x6A396F08, 0xFBA4C795, ""),
        (0x81F16F39, 0xFFFFFFFF, ""),
        (0x514E28B7, 0x00000000, "00"),
        (0xEA3F0B17, 0xFBA4C795, "00"),
        (0xFD6CF10D, 0x00000000, "ff"),
        (0x16C6B7AB, 0x00000000, "0011"),
        (0x8EB51C3D, 0x00000000, "001122"),
        (0xB4471BF8, 0x00000000, "00112233"),
        (0xE2301FA8, 0x00000000, "0011223344"),
        (0xFC2E4A15, 0x00000000, "001122334455"),
        (0xB074502C, 0x00000000, "00112233445566"),
        (0x8034D2A0, 0x00000000, "0011223344556677"),
        (0xB4698DEF, 0x00000000, "001122334455667788"),
        (0x76293B50, 0x00000000, "ffffffff"),
        (0xF55B516B, 0x00000000, "21436587"),
        (0x2362F9DE, 0x5082EDEE, "21436587"),
        (0x7E4A8634, 0x00000000, "214365"),
        (0xA0F7B07A, 0x00000000, "2143"),
        (0x72661CF4, 0x00000000, "21"),
        (0x2362F9DE, 0x00000000, "00000000"),
        (0x85F0B427, 0x00000000, "000000"),
        (0x30F4C306, 0x00000000, "0000"),
    ]
    for want, seed, hx in mv:
        got = murmur3_32(bytes.fromhex(hx), seed)
        assert got == want, (hex(got), hex(want), seed, hx)
    assert murmur3_32(b"Hello, world!", 1234) == 0xFAF6CDB3
    assert murmur3_32(b"The quick brown fox jumps over the lazy dog", 0x9747B28C) == 0x2FA826CD
    assert murmur3_32(b"", 1) == 0x514E28B7
    # Golomb-Rice: BIP158-style examples (q ones, zero, p bits), round trip through the reader
    assert golomb_bytes(0, 2) == b"\x00" and golomb_bytes(9, 2) == b"\xc8" and golomb_bytes(257, 8) == b"\x80\x40"
    assert golomb_bits(5, 2) == [1, 0, 0, 1]
    gv = [(0, 2, "00"), (1, 2, "20"), (2, 2, "40"), (3, 2, "60"), (4, 2, "80"), (5, 2, "90"), (6, 2, "a0"), (7, 2, "b0"), (8, 2, "c0"), (9, 2, "c8")]
    gv += [(0, 8, "0000"), (1, 8, "0080"), (2, 8, "0100"), (128, 8, "4000"), (256, 8, "8000"), (257, 8, "8040")]
    for x, p, want in gv:
        assert golomb_bytes(x, p).hex() == want and BitReader(bytes.fromhex(want)).golomb(p) == x, (x, p)
        w = BitWriter()
        w.write(1 + (x >> p), (1 << (1 + (x >> p))) - 2)
        w.write(p, x)
        assert w.bytes().hex() == want
    for x in list(range(0, 3000, 7)) + [2**19 - 1, 2**19, 2**19 + 1, 2**26 - 1, 2**26]:
        b = golomb_bytes(x)
        assert BitReader(b).golomb() == x
        assert pack(golomb_bits(x)) == b and unpack(b)[: len(golomb_bits(x))] == golomb_bits(x)
    # BIP158 test vectors (testnet-19.json): filter bytes and header chaining
    for height, bhash, blk, prev_scripts, prev_header, want_filter, want_header in BIP158_VECTORS:
        raw = bytes.fromhex("".join(blk) if not isinstance(blk, str) else blk)
        assert dsha(raw[:80])[::-1].hex() == bhash
        key = key_from_block_hash_wire(dsha(raw[:80]))
        elements = set(s for s in _block_output_scripts(raw) if s and s[0] != 0x6A)
        elements |= set(bytes.fromhex(s) for s in prev_scripts if s)
        elements = sorted(elements)
        f = gcs_build(key, elements)
        assert f.hex() == want_filter, (height, f.hex(), want_filter)
        assert gcs_values(f) == hashed_set(key, elements)
        assert all(gcs_match(key, f, e) for e in elements)
        hdr = filter_header(filter_hash(f), bytes.fromhex(prev_header)[::-1])
        assert hdr[::-1].hex() == want_header, height
    # blocks 2 and 3 are consecutive: chain of two
    v2, v3 = BIP158_VECTORS[1], BIP158_VECTORS[2]
    ch = header_chain(bytes.fromhex(v2[4])[::-1], [dsha(bytes.fromhex(v2[5])), dsha(bytes.fromhex(v3[5]))])
    assert ch[0][::-1].hex() == v2[6] and ch[1][::-1].hex() == v3[6]
    # value collisions are encoded as delta 0 and keep N
    k0 = bytes(16)
    i, j, v = find_collision(k0, 2, lambda n: b"item%d" % n)
    els = [b"item%d" % i, b"item%d" % j]
    f = gcs_build(k0, els)
    assert f[0] == 2 and gcs_values(f) == [v, v] and all(gcs_match(k0, f, e) for e in els)
    # BIP37: Bitcoin Core bloom_tests.cpp (bloom_create_insert_serialize / _with_tweak): 3 bytes, 5 functions
    items = ["99108ad8ed9bb6274d3980bab5a85c048f0950c8", "b5a2c786d9ef4658287ced5914b37a1b4aa32eee", "b9300670b4c5366e95b2699e8b18bc75e5f729c5"]
    for tweak, want in ((0, "03614e9b050000000000000001"), (2147483649, "03ce4299050000000100008001")):
        vd = bytearray(3)
        for it in items:
            bloom_insert(vd, bytes.fromhex(it), 5, tweak)
            assert bloom_contains(vd, bytes.fromhex(it), 5, tweak)
        assert filterload_payload(vd, 5, tweak, 1).hex() == want, filterload_payload(vd, 5, tweak, 1).hex()
        assert not bloom_contains(vd, bytes.fromhex("19108ad8ed9bb6274d3980bab5a85c048f0950c8"), 5, tweak)
    # "Programming Bitcoin" ch. 12 example (10 bytes, 5 functions, tweak 99)
    vd = bytearray(10)
    bloom_insert(vd, b"Hello World", 5, 99)
    assert vd.hex() == "0000000a080000000140"
    bloom_insert(vd, b"Goodbye!", 5, 99)
    assert vd.hex() == "4000600a080000010940"
    return True


if __name__ == "__main__":
    selftest()
    print("filterref selftest ok")
