"""Reference models for C17: Merkle roots, BIP37 partial Merkle trees, block headers,
compact-bits <-> target conversion, proof of work and difficulty retargeting.

Written from the Bitcoin protocol documentation, BIP37 and the consensus rules as published
(CPartialMerkleTree, arith_uint256::SetCompact/GetCompact, CheckProofOfWork,
CalculateNextWorkRequired); shares no code with buidl.  Only hashlib/struct.

Conventions: a "hash" is the 32-byte digest in *internal* (wire) byte order; an "id" is the
same bytes reversed (display order).
"""
import hashlib
import struct


def dsha(b):
    return hashlib.sha256(hashlib.sha256(b).digest()).digest()


# ------------------------------------------------------------------ Merkle root
def merkle_root(leaves):
    """Bitcoin's Merkle root: level by level, last element of an odd level paired with itself.
    leaves: non-empty list of 32-byte hashes (internal order). Does not modify its argument."""
    if not leaves:
        raise ValueError("empty")
    level = list(leaves)
    while len(level) > 1:
        nxt = []
        i = 0
        while i < len(level):
            a = level[i]
            b = level[i + 1] if i + 1 < len(level) else a
            nxt.append(dsha(a + b))
            i += 2
        level = nxt
    return level[0]


def merkle_root_rec(leaves):
    """Second, recursive formulation (node (height, pos) as in CPartialMerkleTree::CalcHash)."""
    t = PartialTreeShape(len(leaves))
    return t.calc_hash(t.height, 0, leaves)


# ------------------------------------------------------------------ BIP37 partial Merkle tree
class PartialTreeShape:
    def __init__(self, n):
        if n < 1:
            raise ValueError("no transactions")
        self.n = n
        h = 0
        while self.width(h) > 1:
            h += 1
        self.height = h

    def width(self, height):
        return (self.n + (1 << height) - 1) >> height

    def calc_hash(self, height, pos, leaves, memo=None):
        """memo: optional dict reused between calls on the same leaves (pure cache)."""
        if height == 0:
            return leaves[pos]
        if memo is not None and (height, pos) in memo:
            return memo[(height, pos)]
        left = self.calc_hash(height - 1, pos * 2, leaves, memo)
        if pos * 2 + 1 < self.width(height - 1):
            right = self.calc_hash(height - 1, pos * 2 + 1, leaves, memo)
        else:
            right = left
        out = dsha(left + right)
        if memo is not None:
            memo[(height, pos)] = out
        return out


def build_partial(leaves, match, memo=None):
    """BIP37 'constructing a partial merkle tree object'.
    Returns (bits: list of 0/1, hashes: list of 32-byte internal-order hashes)."""
    n = len(leaves)
    assert len(match) == n
    t = PartialTreeShape(n)
    bits, hashes = [], []

    def walk(height, pos):
        lo = pos << height
        hi = min((pos + 1) << height, n)
        parent_of_match = 1 if any(match[lo:hi]) else 0
        bits.append(parent_of_match)
        if height == 0 or not parent_of_match:
            hashes.append(t.calc_hash(height, pos, leaves, memo))
        else:
            walk(height - 1, pos * 2)
            if pos * 2 + 1 < t.width(height - 1):
                walk(height - 1, pos * 2 + 1)

    walk(t.height, 0)
    return bits, hashes


def pack_bits(bits):
    out = bytearray((len(bits) + 7) // 8)
    for p, b in enumerate(bits):
        if b:
            out[p // 8] |= 1 << (p % 8)
    return bytes(out)


def unpack_bits(raw):
    return [(raw[p // 8] >> (p % 8)) & 1 for p in range(len(raw) * 8)]


MAX_TXS = 4000000 // 240  # MAX_BLOCK_WEIGHT / MIN_TRANSACTION_WEIGHT


def extract_matches(total, hashes, flag_bytes):
    """BIP37 'parsing a partial merkle tree object' with the checks of
    CPartialMerkleTree::ExtractMatches.  Returns (root, [(matched hash, position)]) or None."""
    if total == 0 or total > MAX_TXS:
        return None
    bits = unpack_bits(flag_bytes)
    if len(hashes) > total or len(bits) < len(hashes):
        return None
    t = PartialTreeShape(total)
    st = {"b": 0, "h": 0, "bad": False}
    matched = []

    def walk(height, pos):
        if st["b"] >= len(bits):
            st["bad"] = True
            return b"\x00" * 32
        f = bits[st["b"]]
        st["b"] += 1
        if height == 0 or not f:
            if st["h"] >= len(hashes):
                st["bad"] = True
                return b"\x00" * 32
            h = hashes[st["h"]]
            st["h"] += 1
            if height == 0 and f:
                matched.append((h, pos))
            return h
        left = walk(height - 1, pos * 2)
        if pos * 2 + 1 < t.width(height - 1):
            right = walk(height - 1, pos * 2 + 1)
            if right == left:
                st["bad"] = True  # CVE-2012-2459
        else:
            right = left
        return dsha(left + right)

    root = walk(t.height, 0)
    if st["bad"]:
        return None
    if (st["b"] + 7) // 8 != (len(bits) + 7) // 8:
        return None
    if st["h"] != len(hashes):
        return None
    return root, matched


# ------------------------------------------------------------------ wire formats
def compact_size(n):
    if n < 0xFD:
        return struct.pack("<B", n)
    if n <= 0xFFFF:
        return b"\xfd" + struct.pack("<H", n)
    if n <= 0xFFFFFFFF:
        return b"\xfe" + struct.pack("<I", n)
    return b"\xff" + struct.pack("<Q", n)


def ser_header(version, prev_id, root_id, time, bits_u32, nonce_u32):
    """80-byte header. prev_id/root_id are in display order; version is taken modulo 2^32."""
    return (
        struct.pack("<I", version & 0xFFFFFFFF)
        + prev_id[::-1]
        + root_id[::-1]
        + struct.pack("<I", time)
        + struct.pack("<I", bits_u32)
        + struct.pack("<I", nonce_u32)
    )


def parse_header(raw):
    if len(raw) != 80:
        raise ValueError("header is 80 bytes")
    version, = struct.unpack_from("<I", raw, 0)
    time, bits, nonce = struct.unpack_from("<III", raw, 68)
    return {
        "version": version,
        "prev_id": raw[4:36][::-1],
        "root_id": raw[36:68][::-1],
        "time": time,
        "bits": bits,
        "nonce": nonce,
    }


def header_hash(raw80):
    """internal order"""
    return dsha(raw80)


def header_id(raw80):
    """display order"""
    return dsha(raw80)[::-1]


def ser_merkleblock(header80, total, hashes, flag_bytes):
    return header80 + struct.pack("<I", total) + compact_size(len(hashes)) + b"".join(hashes) + compact_size(len(flag_bytes)) + flag_bytes


def ser_headers_msg(headers80):
    return compact_size(len(headers80)) + b"".join(h + b"\x00" for h in headers80)


# ------------------------------------------------------------------ compact bits
def set_compact(c):
    """arith_uint256::SetCompact.  Returns (value: unbounded int, negative, overflow).
    For non-overflowing inputs value < 2^256 and is the consensus target magnitude."""
    size = c >> 24
    word = c & 0x007FFFFF
    if size <= 3:
        word >>= 8 * (3 - size)
        value = word
    else:
        value = word << (8 * (size - 3))
    negative = word != 0 and (c & 0x00800000) != 0
    overflow = word != 0 and (size > 34 or (word > 0xFF and size > 33) or (word > 0xFFFF and size > 32))
    return value, negative, overflow


def get_compact(value, negative=False):
    """arith_uint256::GetCompact for 0 <= value < 2^256."""
    if not 0 <= value < 1 << 256:
        raise ValueError("not a uint256")
    size = (value.bit_length() + 7) // 8
    if size <= 3:
        c = (value & 0xFFFFFFFFFFFFFFFF) << (8 * (3 - size))
    else:
        c = (value >> (8 * (size - 3))) & 0xFFFFFFFFFFFFFFFF
    c &= 0xFFFFFFFF
    if c & 0x00800000:
        c >>= 8
        size += 1
    c |= size << 24
    if negative and (c & 0x007FFFFF):
        c |= 0x00800000
    return c


def check_pow(hash_internal, bits_u32, pow_limit=None):
    """CheckProofOfWork.  pow_limit=None omits the network-specific upper bound."""
    target, neg, over = set_compact(bits_u32)
    if neg or over or target == 0:
        return False
    if pow_limit is not None and target > pow_limit:
        return False
    return int.from_bytes(hash_internal, "little") <= target


POW_LIMIT_MAIN = (1 << 224) - 1
POW_LIMIT_REGTEST = (1 << 255) - 1
TARGET_TIMESPAN = 14 * 24 * 60 * 60


def next_bits(prev_bits_u32, actual_timespan, pow_limit=POW_LIMIT_MAIN):
    """CalculateNextWorkRequired (arith_uint256 arithmetic is modulo 2^256)."""
    lo, hi = TARGET_TIMESPAN // 4, TARGET_TIMESPAN * 4
    if actual_timespan < lo:
        actual_timespan = lo
    if actual_timespan > hi:
        actual_timespan = hi
    value, _, _ = set_compact(prev_bits_u32)
    value &= (1 << 256) - 1
    value = (value * actual_timespan) & ((1 << 256) - 1)
    value //= TARGET_TIMESPAN
    if value > pow_limit:
        value = pow_limit
    return get_compact(value)


def chain_valid(headers80):
    """A `headers` batch is acceptable iff every header satisfies its own claimed proof of work
    and every header after the first names the hash of its predecessor."""
    prev = None
    for raw in headers80:
        f = parse_header(raw)
        if not check_pow(header_hash(raw), f["bits"]):
            return False
        if prev is not None and f["prev_id"] != prev:
            return False
        prev = header_id(raw)
    return True


# ------------------------------------------------------------------ selftest
GENESIS = {
    "mainnet": "0100000000000000000000000000000000000000000000000000000000000000000000003ba3edfd7a7b12b27ac72c3e67768f617fc81bc3888a51323a9fb8aa4b1e5e4a29ab5f49ffff001d1dac2b7c",
    "testnet": "0100000000000000000000000000000000000000000000000000000000000000000000003ba3edfd7a7b12b27ac72c3e67768f617fc81bc3888a51323a9fb8aa4b1e5e4adae5494dffff001d1aa4ae18",
    "regtest": "0100000000000000000000000000000000000000000000000000000000000000000000003ba3edfd7a7b12b27ac72c3e67768f617fc81bc3888a51323a9fb8aa4b1e5e4adae5494dffff7f2002000000",
}
GENESIS_ID = {
    "mainnet": "000000000019d6689c085ae165831e934ff763ae46a2a6c172b3f1b60a8ce26f",
    "testnet": "000000000933ea01ad0ee984209779baaec3ced90fa3f408719526f8d77f4943",
    "regtest": "0f9188f13cb7b2c71f2a335e3a4fc328bf5beb436012afca590b1a11466e2206",
}

REAL_MERKLEBLOCK = (
    "00000020df3b053dc46f162a9b00c7f0d5124e2676d47bbe7c5d0793a500000000000000ef445fef2ed495c275892206ca533e7411907971013ab83e3b47bd0d692d14d4dc7c835b67d8001ac157e670bf0d0000"
    "0aba412a0d1480e370173072c9562becffe87aa661c1e4a6dbc305d38ec5dc088a7cf92e6458aca7b32edae818f9c2c98c37e06bf72ae0ce80649a38655ee1e27d34d9421d940b16732f24b94023e9d572a7f9ab8023434a4feb532d2adfc8c2c2"
    "158785d1bd04eb99df2e86c54bc13e139862897217400def5d72c280222c4cbaee7261831e1550dbb8fa82853e9fe506fc5fda3f7b919d8fe74b6282f92763cef8e625f977af7c8619c32a369b832bc2d051ecd9c73c51e76370ceabd4f25097"
    "c256597fa898d404ed53425de608ac6bfe426f6e2bb457f1c554866eb69dcb8d6bf6f880e9a59b3cd053e6c7060eeacaacf4dac6697dac20e4bd3f38a2ea2543d1ab7953e3430790a9f81e1c67f5b58c825acf46bd02848384eebe9af917274c"
    "dfbb1a28a5d58a23a17977def0de10d644258d9c54f886d47d293a411cb6226103b55635"
)

TWELVE = [
    "c117ea8ec828342f4dfb0ad6bd140e03a50720ece40169ee38bdc15d9eb64cf5",
    "c131474164b412e3406696da1ee20ab0fc9bf41c8f05fa8ceea7a08d672d7cc5",
    "f391da6ecfeed1814efae39e7fcb3838ae0b02c02ae7d0a5848a66947c0727b0",
    "3d238a92a94532b946c90e19c49351c763696cff3db400485b813aecb8a13181",
    "10092f2633be5f3ce349bf9ddbde36caa3dd10dfa0ec8106bce23acbff637dae",
    "7d37b3d54fa6a64869084bfd2e831309118b9e833610e6228adacdbd1b4ba161",
    "8118a77e542892fe15ae3fc771a4abfd2f5d5d5997544c3487ac36b5c85170fc",
    "dff6879848c2c9b62fe652720b8df5272093acfaa45a43cdb3696fe2466a3877",
    "b825c0745f46ac58f7d3759e6dc535a1fec7820377f24d4c2c6ad2cc55c0cb59",
    "95513952a04bd8992721e9b7e2937f1c04ba31e0469fbe615a78197f68f52b7c",
    "2e6d722e5e4dbdf2447ddecc9f7dabb8e299bae921c99ad5b0184cd9eb8e5908",
    "b13a750047bc0bdceb2473e5fe488c2596d7a7124b4e716fdd29b046ef99bbf0",
]
TWELVE_ROOT = "acbcab8bcc1af95d8d563b77d24c3d19b18f1486383d75a5085c4e86c86beed6"

# (compact, value, negative, overflow, GetCompact(value, negative)) — the SetCompact/GetCompact
# table of Bitcoin Core's arith_uint256 unit tests
COMPACT_VECTORS = [
    (0x00000000, 0, False, False, 0),
    (0x00123456, 0, False, False, 0),
    (0x01003456, 0, False, False, 0),
    (0x02000056, 0, False, False, 0),
    (0x03000000, 0, False, False, 0),
    (0x04000000, 0, False, False, 0),
    (0x00923456, 0, False, False, 0),
    (0x01803456, 0, False, False, 0),
    (0x02800056, 0, False, False, 0),
    (0x03800000, 0, False, False, 0),
    (0x04800000, 0, False, False, 0),
    (0x01123456, 0x12, False, False, 0x01120000),
    (0x01FEDCBA, 0x7E, True, False, 0x01FE0000),
    (0x02123456, 0x1234, False, False, 0x02123400),
    (0x03123456, 0x123456, False, False, 0x03123456),
    (0x04123456, 0x12345600, False, False, 0x04123456),
    (0x04923456, 0x12345600, True, False, 0x04923456),
    (0x05009234, 0x92340000, False, False, 0x05009234),
    (0x20123456, 0x1234560000000000000000000000000000000000000000000000000000000000, False, False, 0x20123456),
]


def selftest():
    # headers: genesis blocks of three networks
    for net, hx in GENESIS.items():
        raw = bytes.fromhex(hx)
        assert header_id(raw).hex() == GENESIS_ID[net], net
        f = parse_header(raw)
        assert ser_header(f["version"], f["prev_id"], f["root_id"], f["time"], f["bits"], f["nonce"]) == raw
        assert f["root_id"].hex() == "4a5e1e4baab89f3a32518a88c31bc87f618f76673e2cc77ab2127b7afdeda33b"
        assert check_pow(header_hash(raw), f["bits"], POW_LIMIT_REGTEST if net == "regtest" else POW_LIMIT_MAIN), net
        assert chain_valid([raw])
    # a real mainnet header (height 478 559) and the same header with a spoiled nonce
    good = bytes.fromhex("04000000fbedbbf0cfdaf278c094f187f2eb987c86a199da22bbb20400000000000000007b7697b29129648fa08b4bcd13c9d5e60abb973a1efac9c8d573c71c807c56c3d6213557faa80518c3737ec1")
    assert check_pow(header_hash(good), parse_header(good)["bits"], POW_LIMIT_MAIN)
    bad = good[:-1] + b"\xc0"
    assert not check_pow(header_hash(bad), parse_header(bad)["bits"], POW_LIMIT_MAIN)
    h = bytes.fromhex("020000208ec39428b17323fa0ddec8e887b4a7c53b8c0a0a220cfd0000000000000000005b0750fce0a889502d40508d39576821155e9c9e3f5c3157f961db38fd8b25be1e77a759e93c0118a4ffd71d")
    assert header_id(h).hex() == "0000000000000000007e9e4c586439b0cdbe13b1370bdd9435d76a644d047523"
    assert set_compact(parse_header(h)["bits"])[0] == 0x13CE9000000000000000000000000000000000000000000
    # mainnet blocks 1 and 2 link to their predecessors
    b1 = bytes.fromhex("010000006fe28c0ab6f1b372c1a6a246ae63f74f931e8365e15a089c68d6190000000000982051fd1e4ba744bbbe680e1fee14677ba1a3c3540bf7b1cdb606e857233e0e61bc6649ffff001d01e36299")
    assert header_id(b1).hex() == "00000000839a8e6886ab5951d76f411475428afc90947ee320161bbf18eb6048"
    assert chain_valid([bytes.fromhex(GENESIS["mainnet"]), b1])
    assert not chain_valid([b1, bytes.fromhex(GENESIS["mainnet"])])
    # compact encoding
    for c, v, neg, over, back in COMPACT_VECTORS:
        got = set_compact(c)
        assert got == (v, neg, over), (hex(c), got)
        assert get_compact(v, neg) == back, (hex(c), hex(get_compact(v, neg)))
    assert set_compact(0xFF123456)[2] is True
    assert set_compact(0x21010000)[2] is True and set_compact(0x2100FFFF)[2] is False and set_compact(0x22000100)[2] is True
    assert set_compact(0x220000FF)[2] is False and set_compact(0x230000FF)[2] is True
    assert get_compact(0x80) == 0x02008000
    assert get_compact(0xFFFF << 208) == 0x1D00FFFF and get_compact(POW_LIMIT_MAIN) == 0x1D00FFFF
    assert get_compact(POW_LIMIT_REGTEST) == 0x207FFFFF
    for c in (0x1D00FFFF, 0x1B0404CB, 0x207FFFFF, 0x1800D0F6, 0x03008000, 0x02008000, 0x01010000):
        assert get_compact(set_compact(c)[0]) == c, hex(c)
    # retargeting: the first difficulty change of mainnet (block 32 256) and the clamps
    assert next_bits(0x1D00FFFF, 1262152739 - 1261130161) == 0x1D00D86A
    assert next_bits(0x1D00FFFF, TARGET_TIMESPAN) == 0x1D00FFFF
    assert next_bits(0x1D00FFFF, TARGET_TIMESPAN * 100) == 0x1D00FFFF  # limited by pow_limit
    assert next_bits(0x1C00FFFF, TARGET_TIMESPAN * 100) == next_bits(0x1C00FFFF, TARGET_TIMESPAN * 4) == 0x1C03FFFC
    assert next_bits(0x1C00FFFF, 0) == next_bits(0x1C00FFFF, TARGET_TIMESPAN // 4) == 0x1B3FFFC0
    assert next_bits(0x1C00FFFF, -5) == 0x1B3FFFC0
    # Merkle roots
    leaves = [bytes.fromhex(x) for x in TWELVE]
    assert merkle_root(leaves).hex() == TWELVE_ROOT and merkle_root_rec(leaves).hex() == TWELVE_ROOT
    assert len(leaves) == 12
    assert merkle_root([leaves[0]]) == leaves[0]
    for n in range(1, 40):
        ls = [dsha(bytes([i, n])) for i in range(n)]
        assert merkle_root(ls) == merkle_root_rec(ls)
        if n % 2 and n > 1:
            assert merkle_root(ls) == merkle_root(ls + [ls[-1]])
    # mainnet block 170 (first payment): two transactions
    t0 = bytes.fromhex("b1fea52486ce0c62bb442b530a3f0132b826c74e473d1f2c220bfa78111c5082")[::-1]
    t1 = bytes.fromhex("f4184fc596403b9d638783cf57adfe4c75c605f6356fbc91338530e9831e9e16")[::-1]
    assert merkle_root([t0, t1])[::-1].hex() == "7dac2c5666815c17a3b36427de37bb9d2e2c5ccec3f8633eb91a4205cb4c10ff"
    # the real merkleblock message
    raw = bytes.fromhex(REAL_MERKLEBLOCK)
    hdr = parse_header(raw[:80])
    total, = struct.unpack_from("<I", raw, 80)
    nh = raw[84]
    hashes = [raw[85 + 32 * i : 117 + 32 * i] for i in range(nh)]
    pos = 85 + 32 * nh
    fl = raw[pos + 1 : pos + 1 + raw[pos]]
    assert pos + 1 + raw[pos] == len(raw) and total == 3519 and nh == 10
    assert ser_merkleblock(raw[:80], total, hashes, fl) == raw
    r = extract_matches(total, hashes, fl)
    assert r is not None and r[0][::-1] == hdr["root_id"]
    assert [m[0][::-1].hex() for m in r[1]] == ["6122b61c413a297dd486f8549c8d2544d610def0de7779a1238ad5a5281abbdf"]
    assert extract_matches(total, hashes[:-1], fl) is None
    assert extract_matches(total, hashes + [hashes[0]], fl) is None
    # builder -> extractor round trip on every match set of small trees
    for n in range(1, 9):
        ls = [dsha(bytes([i, n, 7])) for i in range(n)]
        root = merkle_root(ls)
        memo = {}
        for m in range(1 << n):
            match = [(m >> i) & 1 for i in range(n)]
            bits, hs = build_partial(ls, match)
            assert build_partial(ls, match, memo) == (bits, hs)
            r = extract_matches(n, hs, pack_bits(bits))
            assert r is not None and r[0] == root
            assert [x[0] for x in r[1]] == [ls[i] for i in range(n) if match[i]]
            assert [x[1] for x in r[1]] == [i for i in range(n) if match[i]]
            assert unpack_bits(pack_bits(bits))[: len(bits)] == bits
    # BIP37: an empty match set is a single hash (the root) with one zero bit
    assert build_partial(ls, [0] * 8) == ([0], [root])
    return True


if __name__ == "__main__":
    selftest()
    print("merkleref selftest ok")
