"""Reference BIP32 (hierarchical deterministic keys) + SLIP-132 version table + path grammar.

Written from BIP32 ("Child key derivation (CKD) functions", "Serialization format", "Master key
generation") and SLIP-0132 (registered HD version bytes).  No code shared with buidl; the group
arithmetic comes from mc.ref.ec (itself independent).  Works on secp256k1 and on the toy curves
the harness instantiates pecc.py with: on a toy curve (n far below 2^256) the rule "IL >= n is
invalid" would invalidate every child, so there IL is reduced mod n — exactly the algebra the
property talks about ("public/private consistency mod n") — and only k_i = 0 / K_i = infinity
are invalid.
"""
import hashlib
import hmac

from mc.ref import ec

HARD = 1 << 31

# SLIP-0132 table: (prefix letter, network class, public version, private version)
SLIP132 = [
    ("x", "main", "0488b21e", "0488ade4"),  # P2PKH or P2SH
    ("y", "main", "049d7cb2", "049d7878"),  # P2WPKH in P2SH
    ("z", "main", "04b24746", "04b2430c"),  # P2WPKH
    ("Y", "main", "0295b43f", "0295b005"),  # multi-signature P2WSH in P2SH
    ("Z", "main", "02aa7ed3", "02aa7a99"),  # multi-signature P2WSH
    ("t", "test", "043587cf", "04358394"),
    ("u", "test", "044a5262", "044a4e28"),
    ("v", "test", "045f1cf6", "045f18bc"),
    ("U", "test", "024289ef", "024285b5"),
    ("V", "test", "02575483", "02575048"),
]
NET_CLASS = {"mainnet": "main", "testnet": "test", "signet": "test", "regtest": "test"}


def versions():
    """All 20 version prefixes: (name e.g. 'zpub', net class, is_private, 4 bytes)."""
    out = []
    for letter, cls, pub, prv in SLIP132:
        out.append((letter + "pub", cls, False, bytes.fromhex(pub)))
        out.append((letter + "prv", cls, True, bytes.fromhex(prv)))
    return out


def version_bytes(name):
    for nm, cls, priv, v in versions():
        if nm == name:
            return v
    raise KeyError(name)


def default_versions(network):
    """(private version, public version) BIP32 assigns to the network (xprv/xpub, tprv/tpub)."""
    letter = "x" if NET_CLASS[network] == "main" else "t"
    return version_bytes(letter + "prv"), version_bytes(letter + "pub")


def counterpart(name):
    """'zprv' -> 'zpub' and back."""
    return name[0] + ("pub" if name.endswith("prv") else "prv")


# ------------------------------------------------------------------ hashes, base58check
def sha256(b):
    return hashlib.sha256(b).digest()


def hash160(b):
    return hashlib.new("ripemd160", sha256(b)).digest()


def hmac512(key, data):
    return hmac.new(key, data, hashlib.sha512).digest()


B58 = "123456789ABCDEFGHJKLMNPQRSTUVWXYZabcdefghijkmnopqrstuvwxyz"


def b58check(payload):
    raw = payload + sha256(sha256(payload))[:4]
    v = int.from_bytes(raw, "big")
    s = ""
    while v:
        v, r = divmod(v, 58)
        s = B58[r] + s
    zeros = len(raw) - len(raw.lstrip(b"\x00"))
    return "1" * zeros + s


def b58check_decode(s):
    """payload, or None when a character is foreign or the checksum is wrong."""
    v = 0
    for ch in s:
        d = B58.find(ch)
        if d < 0:
            return None
        v = v * 58 + d
    zeros = len(s) - len(s.lstrip("1"))
    raw = b"\x00" * zeros + (v.to_bytes((v.bit_length() + 7) // 8, "big") if v else b"")
    if len(raw) < 4 or sha256(sha256(raw[:-4]))[:4] != raw[-4:]:
        return None
    return raw[:-4]


# ------------------------------------------------------------------ nodes
class Node:
    """One extended key.  k is None for a public-only node."""

    __slots__ = ("curve", "k", "P", "c", "depth", "pfp", "num")

    def __init__(self, curve, k, P, c, depth=0, pfp=b"\x00" * 4, num=0):
        self.curve, self.k, self.P, self.c, self.depth, self.pfp, self.num = curve, k, P, c, depth, pfp, num

    def sec(self):
        return self.curve.sec(self.P)

    def identifier(self):
        return hash160(self.sec())

    def fingerprint(self):
        return self.identifier()[:4]

    def neuter(self):
        return Node(self.curve, None, self.P, self.c, self.depth, self.pfp, self.num)

    def payload(self, version, private):
        """The 78 bytes: version | depth | parent fingerprint | child number | chain code | key."""
        head = version + bytes([self.depth]) + self.pfp + self.num.to_bytes(4, "big") + self.c
        if private:
            if self.k is None:
                raise ValueError("no private key")
            return head + b"\x00" + self.k.to_bytes(32, "big")
        return head + self.sec()

    def ser(self, version, private):
        return b58check(self.payload(version, private))

    def same(self, o):
        return (self.k, self.P, self.c, self.depth, self.pfp, self.num) == (o.k, o.P, o.c, o.depth, o.pfp, o.num)


def _is_real(curve):
    return curve.n.bit_length() == 256


def make_private(curve, k, c, depth=0, pfp=b"\x00" * 4, num=0):
    return Node(curve, k, curve.mulg(k), c, depth, pfp, num)


def master(seed, curve=ec.SECP):
    """BIP32 master key generation.  None when the result is invalid (IL = 0 or IL >= n)."""
    I = hmac512(b"Bitcoin seed", seed)
    k = int.from_bytes(I[:32], "big")
    if k == 0 or k >= curve.n:
        return None
    return make_private(curve, k, I[32:])


def ckd_priv(node, i):
    """CKDpriv((k_par, c_par), i) -> child node, or None when the child is invalid."""
    if not (0 <= i < 2**32):
        raise ValueError("index out of range")
    if node.k is None:
        raise ValueError("private parent required")
    cv = node.curve
    if i >= HARD:
        data = b"\x00" + node.k.to_bytes(32, "big") + i.to_bytes(4, "big")
    else:
        data = node.sec() + i.to_bytes(4, "big")
    I = hmac512(node.c, data)
    il = int.from_bytes(I[:32], "big")
    if _is_real(cv) and il >= cv.n:
        return None
    k = (il + node.k) % cv.n
    if k == 0:
        return None
    return Node(cv, k, cv.mulg(k), I[32:], node.depth + 1, node.fingerprint(), i)


class HardenedFromPublic(Exception):
    pass


def ckd_pub(node, i):
    """CKDpub((K_par, c_par), i) -> public child node; raises for hardened i; None = invalid."""
    if not (0 <= i < 2**32):
        raise ValueError("index out of range")
    if i >= HARD:
        raise HardenedFromPublic(i)
    cv = node.curve
    I = hmac512(node.c, node.sec() + i.to_bytes(4, "big"))
    il = int.from_bytes(I[:32], "big")
    if _is_real(cv) and il >= cv.n:
        return None
    # deliberately the affine textbook law here (ckd_priv uses the Jacobian ladder)
    P = cv.add(cv.mul_affine(il % cv.n, cv.g), node.P)
    if P is None:
        return None
    return Node(cv, None, P, I[32:], node.depth + 1, node.fingerprint(), i)


def derive_priv(node, path):
    for i in path:
        if node is None:
            return None
        node = ckd_priv(node, i)
    return node


def derive_pub(node, path):
    for i in path:
        if node is None:
            return None
        node = ckd_pub(node, i)
    return node


def parse_xkey(s, curve=ec.SECP):
    """(version bytes, Node) from an extended-key string, None when malformed."""
    raw = b58check_decode(s)
    if raw is None or len(raw) != 78:
        return None
    version, depth, pfp, num, c, key = raw[:4], raw[4], raw[5:9], int.from_bytes(raw[9:13], "big"), raw[13:45], raw[45:]
    if key[0] == 0:
        k = int.from_bytes(key[1:], "big")
        if not (1 <= k < curve.n):
            return None
        return version, make_private(curve, k, c, depth, pfp, num)
    P = curve.parse_sec(key)
    if P is None:
        return None
    return version, Node(curve, None, P, c, depth, pfp, num)


# ------------------------------------------------------------------ path grammar
MARKERS = ("'", "h", "H")


def parse_path(s):
    """'m' or 'M', then '/'-separated decimal indexes < 2^31, each optionally followed by one
    hardened marker (' or h or H).  Returns the list of 32-bit indexes or None."""
    parts = s.split("/")
    if parts[0] not in ("m", "M"):
        return None
    out = []
    for comp in parts[1:]:
        hard = comp[-1:] in MARKERS
        digits = comp[:-1] if hard else comp
        if not digits or any(ch not in "0123456789" for ch in digits):
            return None
        v = int(digits)
        if v >= HARD:
            return None
        out.append(v + HARD if hard else v)
    return out


def format_path(path, prefix="m", marker="'"):
    """marker: one of ' h H, or 'mix' = cycle through the three per hardened component."""
    comps = [prefix]
    nh = 0
    for i in path:
        if i >= HARD:
            mk = MARKERS[nh % 3] if marker == "mix" else marker
            nh += 1
            comps.append(f"{i - HARD}{mk}")
        else:
            comps.append(str(i))
    return "/".join(comps)


# ------------------------------------------------------------------ selftest
_TV = [
    (
        "000102030405060708090a0b0c0d0e0f",
        [
            ("m", "xpub661MyMwAqRbcFtXgS5sYJABqqG9YLmC4Q1Rdap9gSE8NqtwybGhePY2gZ29ESFjqJoCu1Rupje8YtGqsefD265TMg7usUDFdp6W1EGMcet8", "xprv9s21ZrQH143K3QTDL4LXw2F7HEK3wJUD2nW2nRk4stbPy6cq3jPPqjiChkVvvNKmPGJxWUtg6LnF5kejMRNNU3TGtRBeJgk33yuGBxrMPHi"),
            ("m/0'", "xpub68Gmy5EdvgibQVfPdqkBBCHxA5htiqg55crXYuXoQRKfDBFA1WEjWgP6LHhwBZeNK1VTsfTFUHCdrfp1bgwQ9xv5ski8PX9rL2dZXvgGDnw", "xprv9uHRZZhk6KAJC1avXpDAp4MDc3sQKNxDiPvvkX8Br5ngLNv1TxvUxt4cV1rGL5hj6KCesnDYUhd7oWgT11eZG7XnxHrnYeSvkzY7d2bhkJ7"),
            ("m/0'/1", "xpub6ASuArnXKPbfEwhqN6e3mwBcDTgzisQN1wXN9BJcM47sSikHjJf3UFHKkNAWbWMiGj7Wf5uMash7SyYq527Hqck2AxYysAA7xmALppuCkwQ", "xprv9wTYmMFdV23N2TdNG573QoEsfRrWKQgWeibmLntzniatZvR9BmLnvSxqu53Kw1UmYPxLgboyZQaXwTCg8MSY3H2EU4pWcQDnRnrVA1xe8fs"),
            ("m/0'/1/2'", "xpub6D4BDPcP2GT577Vvch3R8wDkScZWzQzMMUm3PWbmWvVJrZwQY4VUNgqFJPMM3No2dFDFGTsxxpG5uJh7n7epu4trkrX7x7DogT5Uv6fcLW5", "xprv9z4pot5VBttmtdRTWfWQmoH1taj2axGVzFqSb8C9xaxKymcFzXBDptWmT7FwuEzG3ryjH4ktypQSAewRiNMjANTtpgP4mLTj34bhnZX7UiM"),
            ("m/0'/1/2'/2", "xpub6FHa3pjLCk84BayeJxFW2SP4XRrFd1JYnxeLeU8EqN3vDfZmbqBqaGJAyiLjTAwm6ZLRQUMv1ZACTj37sR62cfN7fe5JnJ7dh8zL4fiyLHV", "xprvA2JDeKCSNNZky6uBCviVfJSKyQ1mDYahRjijr5idH2WwLsEd4Hsb2Tyh8RfQMuPh7f7RtyzTtdrbdqqsunu5Mm3wDvUAKRHSC34sJ7in334"),
            ("m/0'/1/2'/2/1000000000", "xpub6H1LXWLaKsWFhvm6RVpEL9P4KfRZSW7abD2ttkWP3SSQvnyA8FSVqNTEcYFgJS2UaFcxupHiYkro49S8yGasTvXEYBVPamhGW6cFJodrTHy", "xprvA41z7zogVVwxVSgdKUHDy1SKmdb533PjDz7J6N6mV6uS3ze1ai8FHa8kmHScGpWmj4WggLyQjgPie1rFSruoUihUZREPSL39UNdE3BBDu76"),
        ],
    ),
    (
        "fffcf9f6f3f0edeae7e4e1dedbd8d5d2cfccc9c6c3c0bdbab7b4b1aeaba8a5a29f9c999693908d8a8784817e7b7875726f6c696663605d5a5754514e4b484542",
        [
            ("m", "xpub661MyMwAqRbcFW31YEwpkMuc5THy2PSt5bDMsktWQcFF8syAmRUapSCGu8ED9W6oDMSgv6Zz8idoc4a6mr8BDzTJY47LJhkJ8UB7WEGuduB", "xprv9s21ZrQH143K31xYSDQpPDxsXRTUcvj2iNHm5NUtrGiGG5e2DtALGdso3pGz6ssrdK4PFmM8NSpSBHNqPqm55Qn3LqFtT2emdEXVYsCzC2U"),
            ("m/0", "xpub69H7F5d8KSRgmmdJg2KhpAK8SR3DjMwAdkxj3ZuxV27CprR9LgpeyGmXUbC6wb7ERfvrnKZjXoUmmDznezpbZb7ap6r1D3tgFxHmwMkQTPH", "xprv9vHkqa6EV4sPZHYqZznhT2NPtPCjKuDKGY38FBWLvgaDx45zo9WQRUT3dKYnjwih2yJD9mkrocEZXo1ex8G81dwSM1fwqWpWkeS3v86pgKt"),
            ("m/0/2147483647'", "xpub6ASAVgeehLbnwdqV6UKMHVzgqAG8Gr6riv3Fxxpj8ksbH9ebxaEyBLZ85ySDhKiLDBrQSARLq1uNRts8RuJiHjaDMBU4Zn9h8LZNnBC5y4a", "xprv9wSp6B7kry3Vj9m1zSnLvN3xH8RdsPP1Mh7fAaR7aRLcQMKTR2vidYEeEg2mUCTAwCd6vnxVrcjfy2kRgVsFawNzmjuHc2YmYRmagcEPdU9"),
            ("m/0/2147483647'/1", "xpub6DF8uhdarytz3FWdA8TvFSvvAh8dP3283MY7p2V4SeE2wyWmG5mg5EwVvmdMVCQcoNJxGoWaU9DCWh89LojfZ537wTfunKau47EL2dhHKon", "xprv9zFnWC6h2cLgpmSA46vutJzBcfJ8yaJGg8cX1e5StJh45BBciYTRXSd25UEPVuesF9yog62tGAQtHjXajPPdbRCHuWS6T8XA2ECKADdw4Ef"),
            ("m/0/2147483647'/1/2147483646'", "xpub6ERApfZwUNrhLCkDtcHTcxd75RbzS1ed54G1LkBUHQVHQKqhMkhgbmJbZRkrgZw4koxb5JaHWkY4ALHY2grBGRjaDMzQLcgJvLJuZZvRcEL", "xprvA1RpRA33e1JQ7ifknakTFpgNXPmW2YvmhqLQYMmrj4xJXXWYpDPS3xz7iAxn8L39njGVyuoseXzU6rcxFLJ8HFsTjSyQbLYnMpCqE2VbFWc"),
            ("m/0/2147483647'/1/2147483646'/2", "xpub6FnCn6nSzZAw5Tw7cgR9bi15UV96gLZhjDstkXXxvCLsUXBGXPdSnLFbdpq8p9HmGsApME5hQTZ3emM2rnY5agb9rXpVGyy3bdW6EEgAtqt", "xprvA2nrNbFZABcdryreWet9Ea4LvTJcGsqrMzxHx98MMrotbir7yrKCEXw7nadnHM8Dq38EGfSh6dqA9QWTyefMLEcBYJUuekgW4BYPJcr9E7j"),
        ],
    ),
    (
        "4b381541583be4423346c643850da4b320e46a87ae3d2a4e6da11eba819cd4acba45d239319ac14f863b8d5ab5a0d0c64d2e8a1e7d1457df2e5a3c51c73235be",
        [
            ("m", "xpub661MyMwAqRbcEZVB4dScxMAdx6d4nFc9nvyvH3v4gJL378CSRZiYmhRoP7mBy6gSPSCYk6SzXPTf3ND1cZAceL7SfJ1Z3GC8vBgp2epUt13", "xprv9s21ZrQH143K25QhxbucbDDuQ4naNntJRi4KUfWT7xo4EKsHt2QJDu7KXp1A3u7Bi1j8ph3EGsZ9Xvz9dGuVrtHHs7pXeTzjuxBrCmmhgC6"),
            ("m/0'", "xpub68NZiKmJWnxxS6aaHmn81bvJeTESw724CRDs6HbuccFQN9Ku14VQrADWgqbhhTHBaohPX4CjNLf9fq9MYo6oDaPPLPxSb7gwQN3ih19Zm4Y", "xprv9uPDJpEQgRQfDcW7BkF7eTya6RPxXeJCqCJGHuCJ4GiRVLzkTXBAJMu2qaMWPrS7AANYqdq6vcBcBUdJCVVFceUvJFjaPdGZ2y9WACViL4L"),
        ],
    ),
]


def selftest():
    vprv, vpub = default_versions("mainnet")
    assert (vprv.hex(), vpub.hex()) == ("0488ade4", "0488b21e")
    assert default_versions("signet") == default_versions("regtest") == default_versions("testnet") == (bytes.fromhex("04358394"), bytes.fromhex("043587cf"))
    # BIP32 test vectors 1-3 (published data): private chain, public chain where possible, parsing
    for seed, rows in _TV:
        root = master(bytes.fromhex(seed))
        for path, xpub, xprv in rows:
            idx = parse_path(path)
            assert idx is not None and format_path(idx) == path
            for pfx in ("m", "M"):
                for mk in MARKERS + ("mix",):
                    assert parse_path(format_path(idx, pfx, mk)) == idx
            node = derive_priv(root, idx)
            assert node.ser(vprv, True) == xprv, path
            assert node.ser(vpub, False) == xpub, path
            v, back = parse_xkey(xprv)
            assert v == vprv and back.same(node)
            v, back = parse_xkey(xpub)
            assert v == vpub and back.same(node.neuter())
            if idx and idx[-1] < HARD:
                par = derive_priv(root, idx[:-1])
                assert ckd_pub(par.neuter(), idx[-1]).same(node.neuter()), path
            if idx and idx[-1] >= HARD:
                try:
                    ckd_pub(derive_priv(root, idx[:-1]).neuter(), idx[-1])
                    raise AssertionError("hardened from public accepted")
                except HardenedFromPublic:
                    pass
    # SLIP-132: the version bytes must produce exactly the registered four-letter prefixes
    node = derive_priv(master(bytes.fromhex(_TV[0][0])), [HARD, 1])
    vs = versions()
    assert len(vs) == 20 and len({v for _, _, _, v in vs}) == 20
    for name, cls, priv, v in vs:
        s = node.ser(v, priv)
        assert s[:4] == name and len(s) == 111, (name, s[:4])
        assert parse_xkey(s)[0] == v
        assert version_bytes(counterpart(counterpart(name))) == v
    # base58check: damaged strings are refused, leading zero bytes survive
    s = node.ser(vpub, False)
    assert b58check_decode(s[:-1] + ("2" if s[-1] != "2" else "3")) is None and b58check_decode(s.replace("x", "0", 1)) is None
    assert b58check_decode(b58check(b"\x00\x00\x01")) == b"\x00\x00\x01"
    # path grammar: refusals
    for bad in ("", "n/0", "m/", "m//0", "m/0''", "m/-1", "m/2147483648", "m/2147483648'", "m/0x1", "m/ 1", "m/1h'", "0/1"):
        assert parse_path(bad) is None, bad
    assert parse_path("m") == [] and parse_path("M/2147483647H/0") == [2**32 - 1, 0]
    # toy curves: CKDpub(N(parent)) == N(CKDpriv(parent)) for every parent secret (the algebra)
    for p, n in ((43, 31), (79, 67), (211, 199)):
        cv = ec.toy_curve(p, n)
        zero = 0
        for k in range(1, n):
            for c in (b"\x00" * 32, b"\x5a" * 32):
                par = make_private(cv, k, c, 3, b"\x01\x02\x03\x04", 7)
                for i in (0, 1, HARD - 1):
                    a, b = ckd_priv(par, i), ckd_pub(par.neuter(), i)
                    if a is None:
                        zero += 1
                        assert b is None
                    else:
                        assert b.same(a.neuter()) and a.depth == 4 and a.num == i
                        v, back = parse_xkey(a.ser(vprv, True), cv)
                        assert back.same(a)
                        v, back = parse_xkey(a.ser(vpub, False), cv)
                        assert back.same(b)
        assert zero > 0  # the invalid-child branch is reachable on toy curves
    return True


if __name__ == "__main__":
    selftest()
    print("bip32ref selftest ok")
