"""Shared machinery: result accumulation, parallel exhaustive enumeration over the real
code, toy-instance builder, evidence writer, known-findings handling, replay.

Nothing here samples: every engine hands a finite list of cases to `explore`, all of them
are executed, and the counts written to the evidence are measured on that run.
"""
import ast
import atexit
import collections
import hashlib
import io
import json
import multiprocessing as mp
import os
import shutil
import sys
import tempfile
import time
import traceback

VERIF = os.path.dirname(os.path.dirname(os.path.abspath(__file__)))
REPO = os.environ.get("VERIF_REPO", "/repo")
NPROC = int(os.environ.get("VERIF_NPROC", "16"))
ENGINE_PAR = int(os.environ.get("VERIF_ENGINE_PAR", "3"))
GUARD = "BUIDL_VERIF"

TOY_CURVES = {  # (p, n): y^2 = x^3 + 7 over F_p, p % 4 == 3, prime order n, no point with x = 0
    (43, 31), (79, 67), (67, 79), (163, 139), (211, 199),
}


# ------------------------------------------------------------------ small helpers
def H(*parts):
    h = hashlib.sha256()
    for p in parts:
        if isinstance(p, str):
            p = p.encode()
        elif isinstance(p, int):
            p = str(p).encode()
        h.update(len(p).to_bytes(4, "big"))
        h.update(p)
    return h.digest()


def filler(seed, label, i=0, n=32):
    """Deterministic filler bytes: only non-boundary values of an alphabet depend on the seed."""
    out = b""
    c = 0
    while len(out) < n:
        out += H("filler", seed, label, i, c)
        c += 1
    return out[:n]


def filler_int(seed, label, i, lo, hi):
    """Deterministic integer in [lo, hi]."""
    span = hi - lo + 1
    return lo + int.from_bytes(filler(seed, label, i, 40), "big") % span


def jsonable(x):
    if isinstance(x, (bytes, bytearray)):
        return "0x" + bytes(x).hex()
    if isinstance(x, dict):
        return {str(k): jsonable(v) for k, v in x.items()}
    if isinstance(x, (list, tuple, set, frozenset)):
        return [jsonable(v) for v in x]
    if isinstance(x, int) and not isinstance(x, bool) and abs(x) >= 2**53:
        return str(x)
    if isinstance(x, (int, float, str, bool)) or x is None:
        return x
    return repr(x)


def short(x, n=400):
    s = json.dumps(jsonable(x), sort_keys=True)
    return s if len(s) <= n else s[:n] + "..."


class Rejected:
    """Marker: the implementation did not accept (returned False/None or raised)."""

    def __init__(self, how=""):
        self.how = how

    def __repr__(self):
        return f"Rejected({self.how})"

    def __eq__(self, other):
        return isinstance(other, Rejected)

    def __hash__(self):
        return 7


REJ = Rejected()


class CaseTimeout(BaseException):
    """raised inside a worker when one case has used more CPU time than any terminating case plausibly needs"""


# CPU seconds (user+sys of the worker, so machine load does not matter) one case may use before the explorer reports
# it as non-terminating; the slowest legitimate cases need well under a minute (quick) / a few minutes (thorough)
CASE_CPU_LIMIT = {"quick": 600, "thorough": 3600}


def run_case(eng, case, tier, prop, ename, toy=None):
    """eng.run(case) under a CPU-time guard: a library call that never returns becomes a violation, not a hung check."""
    import signal

    limit = int(os.environ.get("VERIF_CASE_CPU_LIMIT", CASE_CPU_LIMIT.get(tier, 600)))

    def on_alarm(signum, frame):
        raise CaseTimeout()

    old = signal.signal(signal.SIGPROF, on_alarm)
    signal.setitimer(signal.ITIMER_PROF, limit)
    try:
        return eng.run(case)
    except CaseTimeout:
        r = Res()
        r.violation(
            f"{prop}/{ename}/case-does-not-terminate",
            {"engine": ename, "toy": list(toy) if toy else None, "case": case},
            f"no result after {limit} CPU seconds",
            "terminates",
            "a library call made by this case does not return (cases of this engine normally finish within seconds)",
        )
        r.caps.append(f"case stopped after {limit} CPU seconds") if isinstance(r.caps, list) else None
        return r
    finally:
        signal.setitimer(signal.ITIMER_PROF, 0)
        signal.signal(signal.SIGPROF, old)


def attempt(fn, *a, **kw):
    """Call fn; any exception is a rejection.  Library stdout is swallowed."""
    old = sys.stdout
    sys.stdout = io.StringIO()
    try:
        return fn(*a, **kw)
    except (KeyboardInterrupt, SystemExit, MemoryError, CaseTimeout):
        raise
    except BaseException as e:  # noqa
        return Rejected(type(e).__name__)
    finally:
        sys.stdout = old


class quiet:
    def __enter__(self):
        self.old = sys.stdout
        sys.stdout = io.StringIO()

    def __exit__(self, *a):
        sys.stdout = self.old


# ------------------------------------------------------------------ result accumulation
class Res:
    MAX_SAMPLES = 4
    MAX_VIOL = 40

    def __init__(self):
        self.evaluations = 0
        self.nontrivial = set()  # 8-byte digests of distinct non-trivial cases
        self.nontrivial_bulk = 0  # distinct by construction (Cartesian products), counted
        self.outcomes = collections.Counter()
        self.samples = []
        self.states = 0
        self.transitions = 0
        self.traces = 0
        self.skipped = collections.Counter()
        self.violations = []
        self.n_violations = 0
        self.notes = {}
        self.caps = []

    def ok(self, outcome="ok", nontrivial=None, sample=None, n=1):
        """Record n executed cases with the given outcome.
        nontrivial: None (trivial) | a hashable key identifying the distinct non-trivial case."""
        self.evaluations += n
        self.outcomes[outcome] += n
        if nontrivial is not None:
            self.nontrivial.add(H(repr(nontrivial))[:8])
        if sample is not None and len(self.samples) < self.MAX_SAMPLES:
            self.samples.append(jsonable(sample))

    def bulk(self, outcome, n, nontrivial_n=0):
        self.evaluations += n
        self.outcomes[outcome] += n
        self.nontrivial_bulk += nontrivial_n

    def skip(self, why, n=1):
        self.skipped[why] += n

    def violation(self, fp, case, observed, expected, what=""):
        """fp: fingerprint class "<prop>/<check>/<class>"; case: JSON-able replay descriptor."""
        self.evaluations += 1
        self.outcomes["VIOLATION"] += 1
        self.n_violations += 1
        if len(self.violations) < self.MAX_VIOL or not any(v["fingerprint"] == fp for v in self.violations):
            self.violations.append(
                {
                    "fingerprint": fp,
                    "case": jsonable(case),
                    "observed": jsonable(observed),
                    "expected": jsonable(expected),
                    "what": what,
                }
            )

    def merge(self, o):
        self.evaluations += o.evaluations
        self.nontrivial |= o.nontrivial
        self.nontrivial_bulk += o.nontrivial_bulk
        self.outcomes.update(o.outcomes)
        for s in o.samples:
            if len(self.samples) < self.MAX_SAMPLES:
                self.samples.append(s)
        self.states += o.states
        self.transitions += o.transitions
        self.traces += o.traces
        self.skipped.update(o.skipped)
        self.n_violations += o.n_violations
        for v in o.violations:
            if len(self.violations) < self.MAX_VIOL or not any(w["fingerprint"] == v["fingerprint"] for w in self.violations):
                self.violations.append(v)
        for k, v in o.notes.items():
            if isinstance(v, int) and isinstance(self.notes.get(k), int):
                self.notes[k] += v
            else:
                self.notes.setdefault(k, v)
        self.caps += o.caps
        return self

    @property
    def distinct_nontrivial(self):
        return len(self.nontrivial) + self.nontrivial_bulk


# ------------------------------------------------------------------ engines
class Engine:
    """One exhaustive sub-exploration of a property.

    cases(tier, seed) -> list of JSON-able case descriptors (the complete bounded space)
    run(case)        -> Res   (executed in a worker; must build fresh objects from the descriptor)
    toy              -> None | (p, n): run against the toy instantiation of pecc.py
    kind             -> "E1" enumeration | "E2" explicit-state search | "E3" toy instance
    rule             -> text: how cases are enumerated, what is non-trivial
    """

    def __init__(self, name, cases, run, toy=None, kind="E1", rule="", chunk=None, tiers=("quick", "thorough")):
        self.name, self.cases, self.run, self.toy = name, cases, run, toy
        self.kind, self.rule, self.chunk, self.tiers = kind, rule, chunk, tiers


_toy_dirs = {}


def _cleanup():
    for d in list(_toy_dirs.values()):
        shutil.rmtree(d, ignore_errors=True)


atexit.register(_cleanup)


def toy_generator(p):
    sq = {}
    for y in range(p):
        sq.setdefault(y * y % p, []).append(y)
    for x in range(1, p):
        ys = sq.get((x**3 + 7) % p)
        if ys:
            return x, min(ys)
    raise ValueError("no generator")


def build_toy(p, n):
    """Copy /repo/buidl and rewrite exactly the top-level assignments P, N, G of pecc.py.
    Returns (dir, info) or raises ToySeamMissing."""
    key = (p, n)
    if key in _toy_dirs:
        return _toy_dirs[key], _toy_info[key]
    src_dir = os.path.join(REPO, "buidl")
    src = open(os.path.join(src_dir, "pecc.py")).read()
    tree = ast.parse(src)
    lines = src.split("\n")
    gx, gy = toy_generator(p)
    rep = {"P": f"P = {p}", "N": f"N = {n}", "G": f"G = S256Point({gx}, {gy})"}
    found = {}
    for node in tree.body:
        if isinstance(node, ast.Assign) and len(node.targets) == 1 and isinstance(node.targets[0], ast.Name):
            nm = node.targets[0].id
            if nm in rep:
                found[nm] = "\n".join(lines[node.lineno - 1 : node.end_lineno])
                for i in range(node.lineno - 1, node.end_lineno):
                    lines[i] = None
                lines[node.lineno - 1] = rep[nm]
    if set(found) != set(rep):
        raise ToySeamMissing(f"pecc.py: top-level assignments found only for {sorted(found)}")
    d = tempfile.mkdtemp(prefix="verif-toy-")
    shutil.copytree(src_dir, os.path.join(d, "buidl"), ignore=shutil.ignore_patterns("test", "__pycache__", "*.pyc", "*.so"))
    with open(os.path.join(d, "buidl", "pecc.py"), "w") as f:
        f.write("\n".join(l for l in lines if l is not None))
    _toy_dirs[key] = d
    _toy_info[key] = {
        "p": p,
        "n": n,
        "G": [gx, gy],
        "pecc_sha256": hashlib.sha256(src.encode()).hexdigest(),
        "replaced": found,
    }
    return d, _toy_info[key]


_toy_info = {}


class ToySeamMissing(Exception):
    pass


# worker side ---------------------------------------------------------------------
_W = {}


def _init_worker(path, modname, toy):
    os.environ[GUARD] = "1"
    sys.path.insert(0, path)
    sys.path.insert(1, VERIF)
    _W["toy"] = toy
    os.environ["VERIF_TOY"] = f"{toy[0]},{toy[1]}" if toy else ""
    import importlib

    _W["mod"] = importlib.import_module(modname)


def perturb_every(tier):
    """every k-th chunk is replayed in reverse order: quick every 4th, thorough every chunk (env override)."""
    if os.environ.get("VERIF_PERTURB_EVERY"):
        return int(os.environ["VERIF_PERTURB_EVERY"])
    return 4 if tier == "quick" else 1


def _digest_res(r):
    return (r.evaluations, tuple(sorted(r.outcomes.items())), tuple(sorted(v["fingerprint"] for v in r.violations)), r.states, r.transitions)


def _run_chunk(arg):
    ename, tier, seed, idx, chunk = arg
    mod = _W["mod"]
    eng = {e.name: e for e in mod.engines(tier, seed)}[ename]
    res = Res()
    per_case = []
    prop = getattr(mod, "PROP", "C??")
    timed_out = False
    for case in chunk:
        try:
            with quiet():
                r = run_case(eng, case, tier, prop, ename, _W.get("toy"))
            if r is not None and any(v["fingerprint"].endswith("/case-does-not-terminate") for v in r.violations):
                timed_out = True
            if r is not None:
                res.merge(r)
                per_case.append(_digest_res(r))
            else:
                per_case.append(None)
        except (KeyboardInterrupt, SystemExit):
            raise
        except BaseException as e:  # harness error: never a violation, always loud
            return ("error", idx, f"engine {ename} case {short(case)}: {traceback.format_exc()}")
    # order-perturbed replay: every k-th chunk (perturb_every) is executed a second time in reverse order in the
    # same process; observations must be identical (shared mutable state in the library shows up here)
    pe = perturb_every(tier)
    if pe and idx % pe == 0 and len(chunk) >= 1 and not timed_out:
        again = []
        for case in reversed(chunk):
            try:
                with quiet():
                    r = run_case(eng, case, tier, prop, ename, _W.get("toy"))
                again.append(_digest_res(r) if r is not None else None)
            except (KeyboardInterrupt, SystemExit):
                raise
            except BaseException:
                return ("error", idx, f"engine {ename} (reverse replay) case {short(case)}: {traceback.format_exc()}")
        again.reverse()
        res.notes["order_perturbed_cases"] = len(chunk)
        for case, a, b in zip(chunk, per_case, again):
            if a != b:
                prop = getattr(mod, "PROP", "C??")
                res.violation(
                    f"{prop}/{ename}/order-dependence",
                    {"engine": ename, "toy": list(_W["toy"]) if _W.get("toy") else None, "case": case},
                    {"first_run": a, "reverse_replay": b},
                    "identical observations",
                    "the same case gives different observations when the chunk is re-executed in reverse order in the same process",
                )
                break
    return ("ok", idx, res)


def current_toy():
    t = os.environ.get("VERIF_TOY", "")
    if not t:
        return None
    p, n = t.split(",")
    return int(p), int(n)


class HarnessError(Exception):
    pass


def explore(modname, engine, tier, seed, nproc=NPROC):
    """Run every case of one engine on a pool of fresh worker processes."""
    t0 = time.time()
    cases = list(engine.cases(tier, seed))
    info = None
    if engine.toy:
        path, info = build_toy(*engine.toy)
    else:
        path = REPO
    n = len(cases)
    if n == 0:
        raise HarnessError(f"engine {engine.name}: empty case list")
    chunk = engine.chunk or max(1, min(2000, n // (nproc * 8) or 1))
    chunks = [cases[i : i + chunk] for i in range(0, n, chunk)]
    args = [(engine.name, tier, seed, i, c) for i, c in enumerate(chunks)]
    total = Res()
    ctx = mp.get_context("spawn")
    results = {}
    with ctx.Pool(min(nproc, len(chunks)), initializer=_init_worker, initargs=(path, modname, engine.toy)) as pool:
        for status, idx, r in pool.imap_unordered(_run_chunk, args):
            if status == "error":
                pool.terminate()
                raise HarnessError(r)
            results[idx] = r
    for idx in sorted(results):
        total.merge(results[idx])
    if engine.kind == "E3" and total.states == 0:
        # exhaustive exploration of a toy instance: every executed tuple is a state of that instance
        total.states = total.evaluations
        total.transitions = total.evaluations
    rep = {
        "engine": engine.name,
        "kind": engine.kind,
        "cases": n,
        "evaluations": total.evaluations,
        "distinct_nontrivial": total.distinct_nontrivial,
        "states": total.states,
        "transitions": total.transitions,
        "outcomes": dict(total.outcomes),
        "skipped": dict(total.skipped),
        "rule": engine.rule,
        "caps_hit": total.caps,
        "exhaustive": not total.caps,
        "wall_s": round(time.time() - t0, 2),
        "notes": jsonable(total.notes),
    }
    if info:
        rep["toy_instance"] = info
    return total, rep


# ------------------------------------------------------------------ known findings
def load_known():
    path = os.path.join(VERIF, "known_findings.jsonl")
    out = {}
    if os.path.exists(path):
        for line in open(path):
            line = line.strip()
            if not line or line.startswith("#"):
                continue
            d = json.loads(line)
            out.setdefault(d["fingerprint"], d)
    return out


# ------------------------------------------------------------------ main driver
def run_property(prop, modname, tier, seed, level, assumptions, only=None):
    import importlib

    os.environ[GUARD] = "1"
    os.environ.setdefault("PYTHONHASHSEED", "0")
    sys.path.insert(0, REPO)
    t0 = time.time()
    mod = importlib.import_module(modname)
    engines = [e for e in mod.engines(tier, seed) if tier in e.tiers]
    if only:
        engines = [e for e in engines if e.name in only]
    total = Res()
    reports = []
    skipped_engines = []
    # toy copies are built once, sequentially; then up to ENGINE_PAR engines run side by side, each on its own pool of
    # fresh worker processes (the tail of one engine overlaps the start of the next); results are merged in engine order
    from concurrent.futures import ThreadPoolExecutor

    runnable = []
    for e in engines:
        try:
            if e.toy:
                build_toy(*e.toy)
            runnable.append(e)
        except ToySeamMissing as ex:
            skipped_engines.append({"engine": e.name, "reason": str(ex)})

    def _one(e):
        r, rep = explore(modname, e, tier, seed)
        sys.stderr.write(
            f"[{prop}] {e.name}: cases={rep['cases']} eval={rep['evaluations']} nontrivial={rep['distinct_nontrivial']} "
            f"states={rep['states']} trans={rep['transitions']} viol={r.n_violations} {rep['wall_s']}s\n"
        )
        return r, rep

    with ThreadPoolExecutor(max_workers=max(1, ENGINE_PAR)) as tp:
        futs = [tp.submit(_one, e) for e in runnable]
        for f in futs:
            r, rep = f.result()
            total.merge(r)
            reports.append(rep)
    known = load_known()
    new_v, known_v = [], {}
    for v in total.violations:
        k = known.get(v["fingerprint"])
        if k and k.get("status") == "known" and k.get("property") == prop:
            known_v.setdefault(v["fingerprint"], (k, v))
        else:
            new_v.append(v)
    vdir = os.path.join(os.environ.get("VERIF_VIOLATIONS_DIR", os.path.join(VERIF, "violations")), prop)
    lines = []
    for fp, (k, v) in sorted(known_v.items()):
        lines.append(f"KNOWN-FINDING: property={prop} {k['what']} [{fp}]")
    seen_fp = set()
    for v in new_v:
        if v["fingerprint"] in seen_fp:
            continue
        seen_fp.add(v["fingerprint"])
        os.makedirs(vdir, exist_ok=True)
        name = hashlib.sha256(v["fingerprint"].encode()).hexdigest()[:16] + ".json"
        path = os.path.join(vdir, name)
        with open(path, "w") as f:
            json.dump({"property": prop, "tier": tier, "seed": seed, **v}, f, indent=1, sort_keys=True)
        lines.append(f"VIOLATION property={prop} replay={path}")
        sys.stderr.write(f"  {v['fingerprint']}: {v['what']}\n    case={short(v['case'])}\n    observed={short(v['observed'])} expected={short(v['expected'])}\n")
    states = total.states
    transitions = total.transitions
    cov = {
        "evaluations": total.evaluations,
        "distinct_nontrivial": total.distinct_nontrivial,
        "rule": " | ".join(f"{r['engine']}: {r['rule']}" for r in reports),
        "samples": total.samples[:8] or ["<none>"],
        "states": states if states else total.evaluations,
        "transitions": transitions if transitions else total.evaluations,
        "traces_validated_against_impl": transitions if transitions else total.evaluations,
        "exhaustive": all(r["exhaustive"] for r in reports) and not skipped_engines,
        "outcomes": dict(total.outcomes),
        "skipped_out_of_statement": dict(total.skipped),
        "skipped_engines": skipped_engines,
        "engines": reports,
        "known_findings_reproduced": sorted(known_v),
        "explanation": "direct exploration of the implementation: every state/transition is an execution of the real code "
        "from /repo's working tree compared with an independent reference model; when an engine has no "
        "state graph, states/transitions count executed cases",
    }
    ev = {
        "property_id": prop,
        "tier": tier,
        "seed": seed,
        "level": level,
        "coverage": cov,
        "assumptions": assumptions,
        "wall_s": round(time.time() - t0, 2),
        "violations": len(seen_fp),
    }
    if not os.environ.get("VERIF_NO_EVIDENCE"):  # set only by tools_seed.py --scratch (runs against a scratch copy)
        os.makedirs(os.path.join(VERIF, "evidence"), exist_ok=True)
        with open(os.path.join(VERIF, "evidence", f"{prop}.json"), "w") as f:
            json.dump(ev, f, indent=1, sort_keys=True)
    for l in lines:
        print(l)
    print(
        f"{prop} tier={tier} seed={seed} evaluations={total.evaluations} distinct_nontrivial={total.distinct_nontrivial} "
        f"states={cov['states']} transitions={cov['transitions']} known={len(known_v)} violations={len(seen_fp)} wall={ev['wall_s']}s"
    )
    return 1 if seen_fp else 0


def replay(prop, modname, path):
    """Re-execute one recorded violating case twice, without the explorer."""
    import importlib

    os.environ[GUARD] = "1"
    d = json.load(open(path))
    case = d["case"]
    ename = case.get("engine") if isinstance(case, dict) else None
    toy = tuple(case["toy"]) if isinstance(case, dict) and case.get("toy") else None
    if toy:
        p, _ = build_toy(*toy)
        sys.path.insert(0, p)
        os.environ["VERIF_TOY"] = f"{toy[0]},{toy[1]}"
    else:
        sys.path.insert(0, REPO)
    mod = importlib.import_module(modname)
    engs = {e.name: e for e in mod.engines(d.get("tier", "quick"), d.get("seed", 0))}
    if ename not in engs:
        print(f"replay: case has no known engine ({ename})")
        return 2
    obs = []
    for _ in range(2):
        with quiet():
            r = run_case(engs[ename], case["case"], d.get("tier", "quick"), prop, ename, toy)
        obs.append(sorted((v["fingerprint"], json.dumps(v["observed"], sort_keys=True)) for v in r.violations))
    if obs[0] != obs[1]:
        print("replay: NONDETERMINISTIC — observations differ between two executions")
        return 2
    if any(fp == d["fingerprint"] for fp, _ in obs[0]):
        print(f"VIOLATION property={prop} replay={path}")
        print(f"  reproduced: {d['fingerprint']}: {d.get('what','')}")
        return 1
    print(f"replay: {d['fingerprint']} not reproduced on the current tree")
    return 0
