#!/usr/bin/env python3
"""Print the markdown table of seeded changes and what detects them (from seeded/*/meta.json)."""
import glob, json, os
notes = json.load(open("/verif/seeded/NOTES.json"))
rows = []
for d in sorted(glob.glob("/verif/seeded/C*-m*")):
    m = json.load(open(os.path.join(d, "meta.json")))
    sid = os.path.basename(d)
    det = m.get("detection", {})
    fps, engines = [], set()
    for tier, r in det.items():
        for p, v in r.items():
            for f in v["fingerprints"]:
                engines.add(f.split("/")[1])
            fps += v["fingerprints"][:2]
    summ = (m.get("summary") or "").replace("|", "/")
    if len(summ) > 170:
        summ = summ[:167] + "..."
    rows.append(f"| {sid} | {summ} | {'yes' if m.get('detected') else '**NO**'}: {', '.join(sorted(engines)) or '-'} | {notes.get(sid, '')} |")
print("| id | change | detected by (engines) | note |\n|---|---|---|---|")
print("\n".join(rows))
