#!/bin/sh
# Validate /repo's current tree against the repository suite (guard off), fast variant (xdist).
# usage: tools_suite.sh <logfile>
unset BUIDL_VERIF
cd /repo || exit 2
/venv/bin/python -m pytest -q -p no:cacheprovider -p no:rerunfailures --timeout=900 -n 14 buidl/test > "$1" 2>&1
/venv/bin/python -m pytest -q -p no:cacheprovider -p no:rerunfailures --timeout=900 -n 2 test_multiwallet.py test_singlesweep.py >> "$1" 2>&1
grep -E "passed|failed" "$1" | tail -3
