#!/bin/bash
# usage: tools_applyfix.sh Cxx D1 D2 ...   -- apply /tmp/fix/Cxx/Dk.diff to /repo as one "fix:" commit each
p=$1; shift
for k in "$@"; do
  d=/tmp/fix/$p/$k.diff; m=/tmp/fix/$p/$k.msg
  [ -s "$m" ] || { echo "no msg for $p/$k"; exit 2; }
  head -1 $m | grep -q '^fix: ' || { echo "bad subject $p/$k"; exit 2; }
  if ! git -C /repo apply --index $d 2>/tmp/applyerr; then
     if ! git -C /repo apply --index --3way $d 2>>/tmp/applyerr; then echo "APPLY FAILED $p/$k"; cat /tmp/applyerr; exit 1; fi
  fi
  git -C /repo commit -q -F $m && echo "committed $p/$k: $(head -1 $m)"
done
