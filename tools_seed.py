#!/usr/bin/env python3
"""Seeded-change bookkeeping.

  tools_seed.py confirm <worktree> <patch.diff> <demo.py>   # in a scratch worktree: demo fails with / passes without the
                                                           # change, repository suite still passes with it
  tools_seed.py detect <seed_dir> [--tier quick]            # apply seeded/<id>/patch.diff to /repo, run the property's
                                                           # check, undo, record the result in meta.json
"""
import json
import os
import re
import subprocess
import sys

PY = "/venv/bin/python"


def sh(cmd, cwd=None, env=None, timeout=7200):
    e = dict(os.environ)
    e.pop("BUIDL_VERIF", None)
    if env:
        e.update(env)
    r = subprocess.run(cmd, shell=True, cwd=cwd, env=e, capture_output=True, text=True, timeout=timeout)
    return r.returncode, r.stdout + r.stderr


def confirm(wt, patch, demo, jobs="6"):
    out = {}
    rc, o = sh("git status --porcelain --untracked-files=no", cwd=wt)
    assert o.strip() == "", f"worktree not clean: {o}"
    rc0, o0 = sh(f"{PY} {demo}", env={"BUIDL_DIR": wt})
    out["demo_without_change_exit"] = rc0
    rc, o = sh(f"git apply {patch}", cwd=wt)
    assert rc == 0, o
    try:
        rc1, o1 = sh(f"{PY} {demo}", env={"BUIDL_DIR": wt})
        out["demo_with_change_exit"] = rc1
        out["demo_with_change_output"] = o1.strip()[-400:]
        rc, o = sh(f"{PY} -m pytest -q -p no:cacheprovider -p no:rerunfailures --timeout=900 -n {jobs} buidl/test", cwd=wt)
        tail = [l for l in o.splitlines() if re.search(r"passed|failed", l)][-1:]
        failed = sorted(set(re.findall(r"^FAILED (\S+)", o, re.M)))
        out["suite_summary"] = tail[0] if tail else o[-300:]
        other = [f for f in failed if "test_socket_guard" not in f]
        if other:
            # under xdist a test that relies on the tx cache loaded by an earlier OfflineTestCase in the same process
            # (test_taproot.py::test_p2tr_validation) can land on a worker without it: re-run serially after test_tx.py
            ids = " ".join(f.split(" ")[0] for f in other)
            rc2, o2 = sh(f"{PY} -m pytest -q -p no:cacheprovider -p no:rerunfailures --timeout=900 buidl/test/test_tx.py {ids}", cwd=wt)
            still = sorted(set(re.findall(r"^FAILED (\S+)", o2, re.M)))
            out["xdist_order_artefacts_passing_serially"] = [f for f in other if f.split(" ")[0] not in still]
            other = [f for f in other if f.split(" ")[0] in still and "test_socket_guard" not in f]
        out["suite_failures_other_than_socket_guard"] = other
    finally:
        sh("git checkout -- .", cwd=wt)
    out["confirmed"] = out["demo_without_change_exit"] == 0 and out["demo_with_change_exit"] not in (0, None) and not out["suite_failures_other_than_socket_guard"] and "passed" in out["suite_summary"] and "error" not in out["suite_summary"]
    return out


def detect(seed_dir, tier="quick", scratch=False):
    """scratch=False: apply to /repo itself, run, undo (nothing else may use /repo meanwhile).
    scratch=True: apply to a throw-away copy of /repo and point the check at it (VERIF_REPO) — same code path
    of the check, usable while other work reads /repo."""
    import shutil
    import tempfile

    meta_path = os.path.join(seed_dir, "meta.json")
    meta = json.load(open(meta_path))
    prop = meta["property"]
    if scratch:
        repo = tempfile.mkdtemp(prefix="seedrun-")
        shutil.rmtree(repo)
        sh(f"git -C /repo worktree add --detach {repo} HEAD -q")
        env = {"BUIDL_VERIF": "1", "VERIF_REPO": repo, "VERIF_NO_EVIDENCE": "1", "VERIF_VIOLATIONS_DIR": repo + "-viol"}
    else:
        repo = "/repo"
        env = {"BUIDL_VERIF": "1"}
        rc, o = sh("git status --porcelain --untracked-files=no", cwd="/repo")
        assert o.strip() == "", f"/repo not clean: {o}"
    rc, o = sh(f"git apply {os.path.abspath(os.path.join(seed_dir, 'patch.diff'))}", cwd=repo)
    assert rc == 0, o
    results = {}
    try:
        for p in [prop] + meta.get("also_check", []):
            rc, o = sh(f"./check {p} --tier {tier}", cwd="/verif", env=env)
            fps = sorted(set(re.findall(r"^  (C\d\d/\S+?):", o, re.M)))
            results[p] = {"exit": rc, "violation_lines": len(re.findall(r"^VIOLATION ", o, re.M)), "fingerprints": fps[:12], "n_fingerprints": len(fps)}
            if rc not in (0, 1):
                results[p]["output_tail"] = o[-600:]
    finally:
        if scratch:
            sh(f"git -C /repo worktree remove --force {repo}; rm -rf {repo}-viol")
        else:
            sh("git checkout -- .", cwd="/repo")
            sh("git checkout -- evidence", cwd="/verif")
            sh("rm -rf violations/" + prop, cwd="/verif")
    meta.setdefault("detection", {})[tier] = results
    meta["detected"] = any(v["exit"] == 1 for t in meta["detection"].values() for v in t.values())
    json.dump(meta, open(meta_path, "w"), indent=1)
    return results


if __name__ == "__main__":
    if sys.argv[1] == "confirm":
        print(json.dumps(confirm(*sys.argv[2:5]), indent=1))
    elif sys.argv[1] == "detect":
        tier = sys.argv[sys.argv.index("--tier") + 1] if "--tier" in sys.argv else "quick"
        print(json.dumps(detect(sys.argv[2], tier, scratch="--scratch" in sys.argv), indent=1))
