#!/usr/bin/env python3
"""Fill the THOROUGH-TABLE markers of DESIGN.md from a `vp run` log of the thorough tiers (argument: log path)."""
import re, sys
log = open(sys.argv[1]).read()
rows = ["| prop | evaluations | non-trivial | states | transitions | known | violations | CPU s (user) | wall s (shared machine) |", "|---|---|---|---|---|---|---|---|---|"]
cpu = {m.group(3): (m.group(1), m.group(2)) for m in re.finditer(r"cpu_user=(\S+) cpu_sys=\S+ wall=(\S+) (C\d\d)", log)}
for m in re.finditer(r"^(C\d\d) tier=thorough seed=0 evaluations=(\d+) distinct_nontrivial=(\d+) states=(\d+) transitions=(\d+) known=(\d+) violations=(\d+) wall=(\S+)s", log, re.M):
    p = m.group(1)
    rows.append(f"| {p} | {int(m.group(2)):,} | {int(m.group(3)):,} | {int(m.group(4)):,} | {int(m.group(5)):,} | {m.group(6)} | {m.group(7)} | {cpu.get(p, ('?', '?'))[0]} | {m.group(8)} |")
s = open("/verif/DESIGN.md").read()
b, e = "<!-- THOROUGH-TABLE-BEGIN -->", "<!-- THOROUGH-TABLE-END -->"
s = s[: s.index(b) + len(b)] + "\n" + "\n".join(rows) + "\n" + s[s.index(e):]
open("/verif/DESIGN.md", "w").write(s)
print(len(rows) - 2, "rows")
