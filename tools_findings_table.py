#!/usr/bin/env python3
"""Regenerate the findings table of DESIGN.md (between FINDINGS-TABLE markers) from known_findings.jsonl."""
import json, re, subprocess
rows = {}
order = subprocess.run(["git", "-C", "/repo", "log", "--reverse", "--format=%h"], capture_output=True, text=True).stdout.split()
for l in open("/verif/known_findings.jsonl"):
    d = json.loads(l)
    k = d.get("subject") or d["fingerprint"]
    rows.setdefault(k, []).append(d)
out = ["| prop | defect (what failed) | check fingerprint(s) | disposition |", "|---|---|---|---|"]
def key(item):
    v = item[1][0]
    return (v["property"], order.index(v["commit"]) if v.get("commit") in order else 10**6)
for k, v in sorted(rows.items(), key=key):
    d = v[0]
    what = re.sub(r"^fixed: property=C\d\d \S+ ", "", d["what"]).replace("|", "\\|")
    fps = ", ".join("`%s`" % x["fingerprint"].replace("|", "\\|") for x in v[:3]) + (" …" if len(v) > 3 else "")
    disp = f"fix {d['commit']}" if d["status"] == "fixed" else "**known**"
    out.append(f"| {d['property']} | {what} | {fps} | {disp} |")
s = open("/verif/DESIGN.md").read()
b, e = "<!-- FINDINGS-TABLE-BEGIN -->", "<!-- FINDINGS-TABLE-END -->"
assert b in s and e in s
s = s[: s.index(b) + len(b)] + "\n" + "\n".join(out) + "\n" + s[s.index(e):]
open("/verif/DESIGN.md", "w").write(s)
print(len(out) - 2, "rows")
