#!/usr/bin/env python3
"""Ingest the seeded changes a sub-agent left in /tmp/seed/<prop>/out: confirm each one independently in the
scratch worktree (demo fails with / passes without the change, repository suite still green), store it under
/verif/seeded/<prop>-m<k>/, then run the property's check against it (scratch copy) and record the result."""
import json, os, shutil, subprocess, sys
sys.path.insert(0, "/verif")
import tools_seed

def main(prop, root="/tmp/seed", offset=0, tier="quick", only=None):
    offset = int(offset)
    wt = f"{root}/{prop}"
    out = os.path.join(wt, "out")
    for k in (1, 2, 3):
        if only and int(only) != k:
            continue
        patch = os.path.join(out, f"m{k}.diff")
        demo = os.path.join(out, f"m{k}_demo.py")
        if not (os.path.exists(patch) and os.path.exists(demo)):
            continue
        sid = f"{prop}-m{k + offset}"
        dst = f"/verif/seeded/{sid}"
        meta = {}
        mj = os.path.join(out, f"m{k}.json")
        if os.path.exists(mj):
            try:
                meta = json.load(open(mj))
            except Exception:
                meta = {"agent_meta_unreadable": True}
        meta["property"] = prop
        conf = tools_seed.confirm(wt, patch, demo)
        meta["confirmation"] = conf
        print(sid, "confirmed" if conf["confirmed"] else "NOT CONFIRMED", conf.get("suite_summary"), conf.get("demo_with_change_exit"), conf.get("demo_without_change_exit"))
        if not conf["confirmed"]:
            os.makedirs("/verif/seeded/_rejected", exist_ok=True)
            json.dump(meta, open(f"/verif/seeded/_rejected/{sid}.json", "w"), indent=1)
            continue
        os.makedirs(dst, exist_ok=True)
        shutil.copy(patch, os.path.join(dst, "patch.diff"))
        shutil.copy(demo, os.path.join(dst, "demo.py"))
        meta["what_was_run"] = "tools_seed.py confirm (demo with/without change, pytest -n 6 buidl/test with change) in the scratch worktree; tools_seed.py detect --scratch"
        json.dump(meta, open(os.path.join(dst, "meta.json"), "w"), indent=1)
        r = tools_seed.detect(dst, tier, scratch=True)
        print(sid, "detection:", {p: (v["exit"], v["n_fingerprints"], v["fingerprints"][:3]) for p, v in r.items()})

if __name__ == "__main__":
    main(*sys.argv[1:6])
