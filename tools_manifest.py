#!/usr/bin/env python3
"""Regenerate MANIFEST.json from the property modules that exist under mc/props."""
import json, os, sys
sys.path.insert(0, os.path.dirname(os.path.abspath(__file__)))
from mc.main import LEVELS
HERE = os.path.dirname(os.path.abspath(__file__))
TEXT = json.load(open(os.path.join(HERE, "manifest_text.json")))
props = [json.loads(l)["id"] for l in open(os.path.join(HERE, "properties.jsonl"))]
checks, na = [], []
import importlib
sys.path.insert(0, "/repo")
def engine_names(p):
    try:
        m = importlib.import_module("mc.props." + p.lower())
        return [f"{e.name} ({e.kind})" for e in m.engines("quick", 0)]
    except Exception as ex:
        return []
for p in props:
    t = dict(TEXT.get(p, {}))
    names = engine_names(p)
    if names and t.get("text"):
        t["text"] = t["text"].rstrip() + " Engines: " + ", ".join(names) + "; alphabets, bounds and oracles of each are in the rule texts of the evidence file and in DESIGN.md 10.7."
    if os.path.exists(os.path.join(HERE, "mc", "props", p.lower() + ".py")) and not t.get("not_applicable"):
        checks.append({
            "property_id": p,
            "quick_cmd": f"./check {p} --tier quick",
            "thorough_cmd": f"./check {p} --tier thorough",
            "evidence_file": f"/verif/evidence/{p}.json",
            "replay_cmd_template": f"./check {p} --replay {{path}}",
            "engine": "mc",
            "level_claimed": {"category": LEVELS[p], "text": t.get("text", ""), "design_ref": f"DESIGN.md section 5 {p}, 10.2, 10.7"},
            "level_note": t.get("note", "trusted: CPython hashlib/hmac, the independent reference models in mc/ref (self-tested against published vectors), the explorer; pure-Python back end only"),
            "technique": t.get("technique", "bounded exhaustive enumeration of inputs/histories on the real code against a reference model"),
        })
    else:
        na.append({"property_id": p, "reason": t.get("not_applicable", "check not built yet in this session (work in progress); no technical obstacle — see DESIGN.md section 5")})
m = {
    "version": 1,
    "setup_cmd": "./setup.sh",
    "hooks": {
        "guard": "BUIDL_VERIF",
        "enable": "export BUIDL_VERIF=1 (set by ./check); no source hooks exist: every seam (buidl.tx.urlopen, shamir randomness, nonce functions on toy instances) is reached by monkeypatching from the harness process",
        "baseline_off_cmd": "cd /repo && env -u BUIDL_VERIF /venv/bin/python -m pytest -ra -q -p no:cacheprovider --timeout=900 --continue-on-collection-errors",
        "source_commits": [],
        "add_only": True,
    },
    "engines": [
        {"name": "mc", "path": "/verif/mc", "serves_properties": [c["property_id"] for c in checks],
         "kind_free_text": "hand-rolled explicit-state / bounded-exhaustive explorer driving the real buidl code from /repo's working tree: E1 deviation-bounded input enumeration, E2 BFS over operation histories, E3 exhaustive exploration of toy-curve instantiations of pecc.py; oracles are independent reference models in mc/ref"}
    ],
    "checks": checks,
    "not_applicable": na,
    "notes": "Known genuine defects are listed in known_findings.jsonl (status known|fixed). See DESIGN.md.",
}
json.dump(m, open(os.path.join(HERE, "MANIFEST.json"), "w"), indent=1)
print(f"checks={len(checks)} not_applicable={len(na)}")
